package safehtml

// C12: URLSetSanitized keeps only safe image candidates under the WHATWG srcset parser.
// Reference: HTML "parse a srcset attribute", splitting only (DESIGN.md Appendix A.2).

func refWS(b byte) bool { return b == '\t' || b == '\n' || b == '\f' || b == '\r' || b == ' ' }

func refFloatByte(b byte) bool {
	r := refDigit(b) || b == '+' || b == '-' || b == '.' || b == '_'
	r = r || b == 'e' || b == 'E' || b == 'p' || b == 'P' || b == 'x' || b == 'X'
	r = r || b == 'i' || b == 'I' || b == 'n' || b == 'N' || b == 'f' || b == 'F'
	r = r || b == 'a' || b == 'A' || b == 't' || b == 'T' || b == 'y' || b == 'Y'
	// hex float digits
	r = r || b == 'b' || b == 'B' || b == 'c' || b == 'C' || b == 'd' || b == 'D'
	return r
}

// refDescriptorOK: empty, or number-alphabet bytes followed by at most one ASCII letter; no '('.
func refDescriptorOK(d string) bool {
	if len(d) == 0 {
		return true
	}
	ok := true
	for i := 0; i < len(d)-1; i++ {
		ok = ok && refFloatByte(d[i])
	}
	last := d[len(d)-1]
	ok = ok && (refFloatByte(last) || refAlpha(last))
	return ok
}

// refMatchFrom advances j in s to just after the first occurrence of byte c at or after j;
// it returns -1 if there is none.
func refMatchFrom(s string, j int, c byte) int {
	for j < len(s) {
		if s[j] == c {
			return j + 1
		}
		j++
	}
	return -1
}

func vHarness_C12_sanitized() {
	n := vParam("n")
	s := vNondetString("s", n)
	if vParam("ascii") == 1 {
		vASCII(s)
	}
	out := URLSetSanitized(s).String()
	vAssert(len(out) > 0, "the result is never empty")
	if out == InnocuousURL {
		vReach("innocuous")
	}
	pos, ncand, j := 0, 0, 0 // j: position in s up to which bytes have been accounted for
	copied := out != InnocuousURL
	for {
		for pos < len(out) && (refWS(out[pos]) || out[pos] == ',') {
			pos++
		}
		if pos == len(out) {
			break
		}
		u0 := pos
		for pos < len(out) && !refWS(out[pos]) {
			pos++
		}
		u1 := pos
		d0, d1 := pos, pos
		if out[u1-1] == ',' {
			for u1 > u0 && out[u1-1] == ',' {
				u1--
			}
		} else {
			for pos < len(out) && refWS(out[pos]) {
				pos++
			}
			d0 = pos
			state := 0 // 0 in descriptor, 1 in parens, 2 after descriptor
			for pos < len(out) {
				c := out[pos]
				if state == 0 {
					if refWS(c) {
						state = 2
					} else if c == ',' {
						break
					} else if c == '(' {
						state = 1
					}
				} else if state == 1 {
					if c == ')' {
						state = 0
					}
				} else if !refWS(c) {
					state = 0
					continue
				}
				pos++
			}
			d1 = pos
			for d1 > d0 && refWS(out[d1-1]) {
				d1--
			}
			if pos < len(out) {
				pos++ // the comma that ended the candidate
			}
		}
		url, desc := out[u0:u1], out[d0:d1]
		ncand++
		vAssert(len(url) > 0, "candidate URL is non-empty")
		vAssert(URLSanitized(url).String() == url, "candidate URL is one URLSanitized leaves unchanged")
		vAssert(refDescriptorOK(desc), "descriptor is empty or number-like with at most one trailing letter")
		if copied {
			// every URL and descriptor byte is copied, in order, from s
			// (an edge "%2c" may have been inserted for a comma; it is not matched)
			k, end := 0, len(url)
			if refHasPrefix(url, "%2c") {
				k = 3
			}
			if end-k >= 3 && url[end-3] == '%' && url[end-2] == '2' && url[end-1] == 'c' {
				end -= 3
			}
			for ; k < end && j >= 0; k++ {
				j = refMatchFrom(s, j, url[k])
			}
			for k = 0; k < len(desc) && j >= 0; k++ {
				j = refMatchFrom(s, j, desc[k])
			}
			vAssert(j >= 0, "surviving URLs and descriptors are copied, in order, from the input")
		}
	}
	if ncand > 0 {
		vReach("candidates")
	}
	if ncand > 1 {
		vReach("two-candidates")
	}
	vAssert(ncand > 0, "the result always holds at least one candidate (the innocuous URL when nothing survives)")
}

func vHarness_C12_idempotent() {
	n := vParam("n")
	s := vNondetString("s", n)
	if vParam("ascii") == 1 {
		vASCII(s)
	}
	out := URLSetSanitized(s).String()
	vReach("ran")
	vAssert(URLSetSanitized(out).String() == out, "sanitizing an already sanitized value changes nothing")
}

func vProbe_C12_sanitize(a []string) string { return URLSetSanitized(a[0]).String() }
