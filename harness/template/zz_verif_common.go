package template

// Shared harness helpers for the template-package properties.

// vApplyChain runs the named sanitizers, as the executor would run the rewritten
// pipeline {{. | s1 | s2 ...}}, by looking them up in the real funcs map.
func vApplyChain(chain []string, arg interface{}) (string, error) {
	cur := arg
	for _, name := range chain {
		switch f := funcs[name].(type) {
		case func(...interface{}) (string, error):
			s, err := f(cur)
			if err != nil {
				return "", err
			}
			cur = s
		case func(...interface{}) string:
			cur = f(cur)
		default:
			panic("verif: sanitizer " + name + " has an unexpected signature")
		}
	}
	s, _ := cur.(string)
	return s, nil
}

// vAttrContext is the context inside a double- or single-quoted value of elem/attr after
// the static prefix value.
func vAttrContext(elem, attrName, value string, d delim, rel string) context {
	return context{state: stateAttr, delim: d, element: element{name: elem}, attr: attr{name: attrName, value: value}, linkRel: rel}
}

func refIsWSCtl(b byte) bool { return b <= 0x20 || b == 0x7F }

func refHasWSCtl(s string) bool {
	r := false
	for i := 0; i < len(s); i++ {
		r = r || refIsWSCtl(s[i])
	}
	return r
}

func refHasAny(s string, a, b, c byte) bool {
	r := false
	for i := 0; i < len(s); i++ {
		r = r || s[i] == a || s[i] == b || s[i] == c
	}
	return r
}

// refEndsWithPartialCharRef: the string ends in "&", "&name", "&#", "&#123", "&#x", "&#x1f"
// without the terminating ';'.
func refEndsWithPartialCharRef(p string) bool {
	i := -1
	for k := 0; k < len(p); k++ {
		if p[k] == '&' {
			i = k
		}
	}
	if i < 0 {
		return false
	}
	t := p[i+1:]
	if len(t) == 0 {
		return true
	}
	if t[0] == '#' {
		if len(t) >= 2 && (t[1] == 'x' || t[1] == 'X') {
			ok := true
			for k := 2; k < len(t); k++ {
				ok = ok && refHexDigit(t[k])
			}
			return ok
		}
		ok := true
		for k := 1; k < len(t); k++ {
			ok = ok && refDigit(t[k])
		}
		return ok
	}
	ok := refAlpha(t[0])
	for k := 1; k < len(t); k++ {
		ok = ok && (refAlpha(t[k]) || refDigit(t[k]))
	}
	return ok
}

func refEndsWithPartialPercent(q string) bool {
	n := len(q)
	if n >= 1 && q[n-1] == '%' {
		return true
	}
	return n >= 2 && q[n-2] == '%' && refHexDigit(q[n-1])
}
