#!/bin/bash
# usage: tools/mut.sh <prop> <file-in-repo> <python-replace-old> <python-replace-new> [tier]
# applies a textual mutation to /repo, runs the check, restores the tree.
prop=$1; file=$2; old=$3; new=$4; tier=${5:-quick}
cd /repo && python3 - "$file" "$old" "$new" <<'PY'
import sys
f,old,new=sys.argv[1:4]
s=open(f).read()
if old not in s: sys.exit("pattern not found")
open(f,'w').write(s.replace(old,new,1))
PY
[ $? -ne 0 ] && { git -C /repo checkout -- .; exit 3; }
(cd /repo && go build ./... 2>&1 | head -3)
cd /verif && timeout 1800 ./bin/symgo check -prop $prop -tier $tier | cut -c1-300 | head -${LINES_MAX:-6}
echo "exit=${PIPESTATUS[0]}"
git -C /repo checkout -- .
