package safehtml

import "unicode/utf8"

// C10: HTMLEscaped yields inert, interchange-valid, round-tripping text for every input.

// refCoerceRune is the rune-level specification written from the property text:
// NUL, C0 controls other than TAB LF FF CR, DEL, C1 controls and Unicode
// noncharacters become U+FFFD.
func refCoerceRune(r rune) rune {
	bad := r == 0 ||
		(1 <= r && r <= 8) || r == 0xB || (0xE <= r && r <= 0x1F) ||
		(0x7F <= r && r <= 0x9F) ||
		(0xFDD0 <= r && r <= 0xFDEF) ||
		(r&0xFFFE) == 0xFFFE
	if bad {
		return 0xFFFD
	}
	return r
}

func refHTMLEscaped(s string) string {
	out := ""
	for i := 0; i < len(s); {
		r, w := utf8.DecodeRuneInString(s[i:]) // an invalid byte decodes to (U+FFFD, 1)
		switch {
		case r == utf8.RuneError && w == 1:
			out += "\uFFFD"
		case refCoerceRune(r) != r:
			out += "\uFFFD"
		case r == '&':
			out += "&amp;"
		case r == '<':
			out += "&lt;"
		case r == '>':
			out += "&gt;"
		case r == '"':
			out += "&#34;"
		case r == '\'':
			out += "&#39;"
		default:
			out += s[i : i+w] // the code point is kept as it was written
		}
		i += w
	}
	return out
}

// refOnlyFiveRefs: none of < > " ' and every & starts one of the five references.
func refOnlyFiveRefs(s string) bool {
	ok := true
	for i := 0; i < len(s); i++ {
		b := s[i]
		if b == '<' || b == '>' || b == '"' || b == '\'' {
			ok = false
		}
		if b == '&' {
			rest := s[i+1:]
			m := refHasPrefix(rest, "amp;") || refHasPrefix(rest, "lt;") || refHasPrefix(rest, "gt;") || refHasPrefix(rest, "#34;") || refHasPrefix(rest, "#39;")
			if !m {
				ok = false
			}
		}
	}
	return ok
}

func vHarness_C10_escaped() {
	n := vParam("n")
	s := vNondetString("s", n)
	out := HTMLEscaped(s).String()
	vReach("ran")
	vAssert(out == refHTMLEscaped(s), "HTMLEscaped(s) equals the rune-wise reference (coerce to interchange-valid, then the five escapes)")
	vAssert(refOnlyFiveRefs(out), "output contains none of < > \" ' and no & other than the head of the five references")
	vAssert(utf8.ValidString(out), "output is valid UTF-8")
}

func vHarness_C10_concat() {
	na, nb := vParam("na"), vParam("nb")
	a := vNondetString("a", na)
	b := vNondetString("b", nb)
	vAssert(HTMLConcat(HTML{a}, HTML{b}).String() == a+b, "HTMLConcat of two values is plain concatenation")
	vAssert(HTMLConcat(HTML{a}).String() == a, "HTMLConcat of one value is that value")
	vAssert(HTMLConcat().String() == "", "HTMLConcat of nothing is empty")
	vReach("ran")
}

func vProbe_C10_escaped(a []string) string { return HTMLEscaped(a[0]).String() }
func vProbe_C10_ref(a []string) string     { return refHTMLEscaped(a[0]) }

// placement clause: in element content, RCDATA content and quoted attribute values the
// escaped text tokenizes as text only and never ends the enclosing construct
func vHarness_C10_placement() {
	prefixes := []string{"", "<p>", "<title>", "<textarea>", `<p title="`, `<p title='`}
	var pre tok
	pre.run(prefixes[vParam("pre")])
	s := vNondetString("s", vParam("n"))
	out := HTMLEscaped(s).String()
	after := pre
	after.run(out)
	vReach("ran")
	same := after.st == pre.st && after.raw == pre.raw && after.starts == pre.starts && after.ends == pre.ends && after.attrs == pre.attrs && after.comments == pre.comments && after.fp == pre.fp
	vAssert(same, "escaped text changed the tokenizer state or produced a tag, attribute or comment")
}

// long inputs: a concrete run of k ASCII letters, then n symbolic bytes, then a concrete
// tail. The symbolic window slides over the positions where implementations that work in
// chunks (buffers of 64 ... 4096 bytes) would split a multi-byte sequence.
func vHarness_C10_long() {
	k := vParam("k")
	pad := make([]byte, k)
	for i := range pad {
		pad[i] = 'a'
	}
	mid := vNondetString("s", vParam("n"))
	s := string(pad) + mid + "z<"
	out := HTMLEscaped(s).String()
	vReach("ran")
	vAssert(out == string(pad)+refHTMLEscaped(mid)+"z&lt;", "HTMLEscaped of a long input equals the rune-wise reference")
}
