package template

import "text/template/parse"

// C01: template markup structure is never altered by untrusted data. Unit lemmas over
// escapeText / contextAfterText / the transition functions, sanitizerForContext and
// join, with the escaper context and the tokenizer state as explicit pre-states.

type c01Pre struct {
	name   string
	prefix string // a static template prefix that reaches this pre-state (documentation, replay)
	c      context
	tOrig  tok // tokenizer after the author's prefix
	tOut   tok // tokenizer after the rewritten prefix (comments stripped)
}

func c01Tok(prefix string) tok {
	var t tok
	t.run(prefix)
	return t
}

func c01Strip(st tok) tok { return st }

func c01PreStates() []c01Pre {
	mk := func(name, prefix, out string, c context) c01Pre {
		return c01Pre{name: name, prefix: prefix, c: c, tOrig: c01Tok(prefix), tOut: c01Tok(out)}
	}
	div := element{name: "div"}
	return []c01Pre{
		mk("text", "", "", context{}),                                                                                                   // 0
		mk("div-content", "<div>", "<div>", context{state: stateText, element: div}),                                                     // 1
		mk("title", "<title>", "<title>", context{state: stateSpecialElementBody, element: element{name: "title"}}),                      // 2
		mk("textarea", "<textarea>", "<textarea>", context{state: stateSpecialElementBody, element: element{name: "textarea"}}),          // 3
		mk("script", "<script>", "<script>", context{state: stateSpecialElementBody, element: element{name: "script"}}),                  // 4
		mk("style", "<style>", "<style>", context{state: stateSpecialElementBody, element: element{name: "style"}}),                      // 5
		mk("tag", "<div ", "<div ", context{state: stateTag, element: div}),                                                              // 6
		mk("tag-name", "<div", "<div", context{state: stateTag, element: div}),                                                           // 7
		mk("after-quoted", `<div a="x"`, `<div a="x"`, context{state: stateTag, element: div}),                                           // 8
		mk("attr-name", "<div ti", "<div ti", context{state: stateAttrName, element: div, attr: attr{name: "ti"}}),                       // 9
		mk("after-name", "<div title ", "<div title ", context{state: stateAfterName, element: div, attr: attr{name: "title"}}),          // 10
		mk("before-value", "<div title=", "<div title=", context{state: stateBeforeValue, element: div, attr: attr{name: "title"}}),      // 11
		mk("attr-dq", `<div title="`, `<div title="`, context{state: stateAttr, delim: delimDoubleQuote, element: div, attr: attr{name: "title"}}), // 12
		mk("attr-sq", `<div title='`, `<div title='`, context{state: stateAttr, delim: delimSingleQuote, element: div, attr: attr{name: "title"}}), // 13
		mk("attr-uq", `<div title=x`, `<div title=x`, context{state: stateAttr, delim: delimSpaceOrTagEnd, element: div, attr: attr{name: "title", value: "x"}}), // 14
		mk("comment", "<!--", "", context{state: stateHTMLCmt}),                                                                           // 15
		mk("href-dq", `<a href="`, `<a href="`, context{state: stateAttr, delim: delimDoubleQuote, element: element{name: "a"}, attr: attr{name: "href"}}), // 16
		mk("script-dblesc", "<script><!--<script>", "<script><!--<script>", context{state: stateSpecialElementBody, element: element{name: "script"}}), // 17
		mk("script-esc", "<script><!--", "<script><!--", context{state: stateSpecialElementBody, element: element{name: "script"}}),        // 18
	}
}

func c01Stable(t *tok) bool {
	switch t.st {
	case kData, kRCDATA, kRAWTEXT, kScript, kPLAINTEXT, kTagName, kBeforeAttrName, kAttrName, kAfterAttrName, kBeforeAttrValue,
		kAttrValueDQ, kAttrValueSQ, kAttrValueUQ, kAfterAttrValueQ, kSelfClosing, kScriptEsc, kScriptDblEsc, kComment, kCommentStart:
		return true
	}
	return false
}

func c01RawKind(name string) uint8 {
	k := rawNone
	for i := 1; i < len(rawNames); i++ {
		if name == rawNames[i] {
			k = uint8(i)
		}
	}
	return k
}

// c01Inv relates the escaper's context to the tokenizer state of the output.
func c01Inv(c context, t *tok) bool {
	switch c.state {
	case stateText:
		return t.st == kData
	case stateSpecialElementBody:
		k := c01RawKind(c.element.name)
		if k == rawScript {
			return t.raw == k && (t.st == kScript || t.st == kScriptEsc || t.st == kScriptDblEsc)
		}
		return t.raw == k && k != rawNone && t.st == rawTextState(k)
	case stateTag, stateAttrName, stateAfterName:
		// positions inside a tag but outside any value: actions are rejected in all of them,
		// so they are not distinguished
		return t.st == kBeforeAttrName || t.st == kAfterAttrValueQ || t.st == kTagName || t.st == kSelfClosing || t.st == kAttrName || t.st == kAfterAttrName
	case stateBeforeValue:
		return t.st == kBeforeAttrValue
	case stateAttr:
		switch c.delim {
		case delimDoubleQuote:
			return t.st == kAttrValueDQ
		case delimSingleQuote:
			return t.st == kAttrValueSQ
		case delimSpaceOrTagEnd:
			return t.st == kAttrValueUQ || t.st == kBeforeAttrValue
		}
		return false
	case stateHTMLCmt:
		return t.st == kData
	}
	return false
}

func c01Escape(c context, s string) (context, string) {
	e := &escaper{ns: &nameSpace{}, textNodeEdits: map[*parse.TextNode][]byte{}}
	n := &parse.TextNode{NodeType: parse.NodeText, Text: []byte(s)}
	c1 := e.escapeText(c, n)
	if edit, ok := e.textNodeEdits[n]; ok {
		return c1, string(edit)
	}
	return c1, s
}

// c01UnknownRaw is the class predicate of the known finding C01-unknown-rawtext: the
// tokenizer is inside a raw-text element that the escaper's specialElements table (read
// from the current source) does not list. An element the escaper does list is not in the class.
func c01UnknownRaw(t *tok) bool {
	unknown := t.raw == rawXmp || t.raw == rawIframe || t.raw == rawNoembed || t.raw == rawNoframes || t.raw == rawNoscript || t.raw == rawPlaintext
	return unknown && !specialElements[rawNames[t.raw]]
}

// L1 + L2: one text node from a pre-state
func vHarness_C01_text() {
	pre := c01PreStates()[vParam("pre")]
	s := vNondetString("s", vParam("n"))
	vASCII(s)
	c1, out := c01Escape(pre.c, s)
	if c1.state == stateError {
		vReach("rejected")
		return
	}
	vReach("accepted")
	orig, rew := pre.tOrig, pre.tOut
	orig.run(s)
	rew.run(out)
	// known divergences between the escaper's model and the tokenizer (DESIGN.md C01)
	rawK := c01UnknownRaw(&orig) || c01UnknownRaw(&rew)           // raw-text elements the escaper does not know
	scrK := vParam("pre") == 17 || vParam("pre") == 18 || c01ScriptEsc(&orig) || c01ScriptEsc(&rew) // script data escaped states
	oddK := orig.odd || rew.odd                                    // tag names the escaper ends early
	slashK := orig.oddSlash || rew.oddSlash                        // '/' inside a tag: attribute-name byte for the escaper
	cmtK := orig.oddCmt || rew.oddCmt                              // comment forms other than <!-- ... -->
	// a text node that continues a tag name begun in the previous node (<div{{if}}..{{end}}x ...)
	splitK := pre.tOrig.st == kTagName && len(s) > 0 && !tokWS(s[0]) && s[0] != '/' && s[0] != '>'
	oddK = oddK || splitK
	// L1: rewriting never adds, drops or renames a tag or attribute, and leaves no comment
	l1a := rew.comments == pre.tOut.comments
	l1b := rew.starts == orig.starts && rew.ends == orig.ends && rew.attrs == orig.attrs && rew.fp == orig.fp
	c01Assert(l1a, "the rewritten text still contains a comment token", rawK, scrK, oddK, slashK, cmtK)
	c01Assert(l1b, "rewriting the text changed the tags or attribute names the author wrote", rawK, scrK, oddK, slashK, cmtK)
	// L2: the escaper's context after the node matches the tokenizer state after the output
	if c01Stable(&rew) {
		vReach("stable")
		c01Assert(c01Inv(c1, &rew), "the escaper's context after the text disagrees with the tokenizer state of the output", rawK, scrK, oddK, slashK, cmtK)
	}
}

func c01ScriptEsc(t *tok) bool {
	return t.st >= kScriptEscStart
}

// c01Assert splits a failure into the three known divergence classes and "new".
func c01Assert(ok bool, msg string, rawK, scrK, oddK, slashK, cmtK bool) {
	vAssertKnown(ok || !rawK, msg, "C01-unknown-rawtext", true)
	vAssertKnown(ok || rawK || !scrK, msg, "C01-script-escape-states", true)
	vAssertKnown(ok || rawK || scrK || !oddK, msg, "C01-tagname-charset", true)
	vAssertKnown(ok || rawK || scrK || oddK || !slashK, msg, "C01-slash-in-tag", true)
	vAssertKnown(ok || rawK || scrK || oddK || slashK || !cmtK, msg, "C01-comment-forms", true)
	vAssert(ok || rawK || scrK || oddK || slashK || cmtK, msg)
}

// L3: where an action is accepted, untrusted data is inert
func vHarness_C01_action() {
	pre := c01PreStates()[vParam("pre")]
	d := vNondetString("d", vParam("n"))
	chain, err := sanitizerForContext(nudge(pre.c))
	if err != nil {
		vReach("rejected")
		return
	}
	vReach("accepted")
	t := pre.tOut
	inert := t.st == kData || t.st == kRCDATA || t.st == kRAWTEXT || t.st == kScript || t.st == kScriptEsc || t.st == kScriptDblEsc || t.st == kPLAINTEXT || t.st == kAttrValueDQ || t.st == kAttrValueSQ
	vAssertKnown(inert, "an action is accepted in a tokenizer state where data cannot be made inert (tag, attribute name, unquoted value, comment)", "C01-script-escape-states", vParam("pre") >= 17)
	out, derr := vApplyChain(chain, d)
	if derr != nil {
		return
	}
	after := t
	after.run(out)
	same := after.st == t.st && after.starts == t.starts && after.ends == t.ends && after.attrs == t.attrs && after.comments == t.comments && after.fp == t.fp
	vAssertKnown(same, "untrusted data changed the tokenizer state or produced a tag, attribute or comment", "C01-script-escape-states", vParam("pre") >= 17)
}

// L4: join keeps the invariant for both branches
func vHarness_C01_join() {
	ps := c01PreStates()
	a, b := ps[vParam("a")], ps[vParam("b")]
	j := join(a.c, b.c, nil, "if")
	if j.state == stateError {
		vReach("rejected")
		return
	}
	vReach("joined")
	ta, tb := a.tOut, b.tOut
	vAssertKnown(c01Inv(j, &ta) && c01Inv(j, &tb), "the joined context disagrees with the tokenizer state of one of the branches", "C01-join-element-names", a.c.element.name != b.c.element.name)
}

func vProbe_C01_escape(a []string) string {
	ps := c01PreStates()
	pre := ps[int(a[0][0])%len(ps)]
	c1, out := c01Escape(pre.c, a[1])
	if c1.state == stateError {
		return "error"
	}
	return string([]byte{'0' + byte(c1.state), '0' + byte(c1.delim)}) + c1.element.name + "|" + c1.attr.name + "|" + out
}

func vProbe_C01_tok(a []string) string {
	var t tok
	t.run(a[0])
	return string([]byte{'A' + t.st, '0' + t.raw, '0' + t.starts, '0' + t.ends, '0' + t.attrs, '0' + t.comments})
}
