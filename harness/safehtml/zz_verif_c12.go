package safehtml

// C12: URLSetSanitized keeps only safe image candidates under the WHATWG srcset parser.
// Reference: HTML "parse a srcset attribute", splitting only (DESIGN.md Appendix A.2).

func refWS(b byte) bool { return b == '\t' || b == '\n' || b == '\f' || b == '\r' || b == ' ' }

func refFloatByte(b byte) bool {
	r := refDigit(b) || b == '+' || b == '-' || b == '.' || b == '_'
	r = r || b == 'e' || b == 'E' || b == 'p' || b == 'P' || b == 'x' || b == 'X'
	r = r || b == 'i' || b == 'I' || b == 'n' || b == 'N' || b == 'f' || b == 'F'
	r = r || b == 'a' || b == 'A' || b == 't' || b == 'T' || b == 'y' || b == 'Y'
	// hex float digits
	r = r || b == 'b' || b == 'B' || b == 'c' || b == 'C' || b == 'd' || b == 'D'
	return r
}

// refDescriptorOK: empty, or number-alphabet bytes followed by at most one ASCII letter; no '('.
func refDescriptorOK(d string) bool {
	if len(d) == 0 {
		return true
	}
	ok := true
	for i := 0; i < len(d)-1; i++ {
		ok = ok && refFloatByte(d[i])
	}
	last := d[len(d)-1]
	ok = ok && (refFloatByte(last) || refAlpha(last))
	return ok
}

// refMatchFrom advances j in s to just after the first occurrence of byte c at or after j;
// it returns -1 if there is none.
func refMatchFrom(s string, j int, c byte) int {
	for j < len(s) {
		if s[j] == c {
			return j + 1
		}
		j++
	}
	return -1
}

// refTokenFrom finds the first position p >= j at which sub occurs in s as a whole
// white-space/comma delimited token (the byte before it, if any, is white space or a
// comma, and so is the byte after it) and returns the position just after it, or -1.
// commaBefore / commaAfter demand that the token is glued to a comma on that side (the
// comma the sanitizer rewrote as "%2c").
func refTokenFrom(s string, j int, sub string, commaBefore, commaAfter bool) int {
	res := -1
	for p := len(s) - len(sub); p >= 0; p-- {
		ok := p >= j
		for k := 0; k < len(sub); k++ {
			if s[p+k] != sub[k] {
				ok = false
			}
		}
		if p > 0 {
			if !refWS(s[p-1]) && s[p-1] != ',' {
				ok = false
			}
			if commaBefore && s[p-1] != ',' {
				ok = false
			}
		} else if commaBefore {
			ok = false
		}
		if e := p + len(sub); e < len(s) {
			if !refWS(s[e]) && s[e] != ',' {
				ok = false
			}
			if commaAfter && s[e] != ',' {
				ok = false
			}
		} else if commaAfter {
			ok = false
		}
		if ok {
			res = p + len(sub)
		}
	}
	return res
}

func vHarness_C12_sanitized() {
	n := vParam("n")
	s := vNondetString("s", n)
	if vParam("ascii") == 1 {
		vASCII(s)
	}
	c12Oracle(s)
}

// three candidates with concrete separators and symbolic contents:
//
//	U1 " ," U2 " " D2 "," U3 [" " D3]
//
// (an accepted, a dropped and another accepted candidate in one input need more bytes
// than the unstructured harness reaches)
func vHarness_C12_three() {
	u1 := vNondetString("u1", vParam("n1"))
	u2 := vNondetString("u2", vParam("n2"))
	d2 := vNondetString("d2", vParam("m2"))
	u3 := vNondetString("u3", vParam("n3"))
	d3 := vNondetString("d3", vParam("m3"))
	vASCII(u1)
	vASCII(u2)
	vASCII(d2)
	vASCII(u3)
	vASCII(d3)
	s := u1 + " ," + u2 + " " + d2 + "," + u3
	if len(d3) > 0 {
		s += " " + d3
	}
	c12Oracle(s)
}

func c12Oracle(s string) {
	out := URLSetSanitized(s).String()
	vAssert(len(out) > 0, "the result is never empty")
	if out == InnocuousURL {
		vReach("innocuous")
	}
	pos, ncand, j := 0, 0, 0 // j: position in s up to which bytes have been accounted for
	copied := out != InnocuousURL
	for {
		for pos < len(out) && (refWS(out[pos]) || out[pos] == ',') {
			pos++
		}
		if pos == len(out) {
			break
		}
		u0 := pos
		for pos < len(out) && !refWS(out[pos]) {
			pos++
		}
		u1 := pos
		d0, d1 := pos, pos
		if out[u1-1] == ',' {
			for u1 > u0 && out[u1-1] == ',' {
				u1--
			}
		} else {
			for pos < len(out) && refWS(out[pos]) {
				pos++
			}
			d0 = pos
			state := 0 // 0 in descriptor, 1 in parens, 2 after descriptor
			for pos < len(out) {
				c := out[pos]
				if state == 0 {
					if refWS(c) {
						state = 2
					} else if c == ',' {
						break
					} else if c == '(' {
						state = 1
					}
				} else if state == 1 {
					if c == ')' {
						state = 0
					}
				} else if !refWS(c) {
					state = 0
					continue
				}
				pos++
			}
			d1 = pos
			for d1 > d0 && refWS(out[d1-1]) {
				d1--
			}
			if pos < len(out) {
				pos++ // the comma that ended the candidate
			}
		}
		url, desc := out[u0:u1], out[d0:d1]
		ncand++
		vAssert(len(url) > 0, "candidate URL is non-empty")
		vAssert(URLSanitized(url).String() == url, "candidate URL is one URLSanitized leaves unchanged")
		vAssert(refDescriptorOK(desc), "descriptor is empty or number-like with at most one trailing letter")
		if copied {
			// every URL and descriptor byte is copied, in order, from s
			// (an edge "%2c" may have been inserted for a comma; it is not matched)
			k, end := 0, len(url)
			if refHasPrefix(url, "%2c") {
				k = 3
			}
			if end-k >= 3 && url[end-3] == '%' && url[end-2] == '2' && url[end-1] == 'c' {
				end -= 3
			}
			// the URL - as written, or with an edge "%2c" read back as the comma it replaced - and
			// the descriptor are whole tokens of s, in order
			if j >= 0 {
				best := refTokenFrom(s, j, url, false, false)
				for v := 1; v < 4; v++ {
					kk, ee := 0, len(url)
					if v&1 != 0 {
						kk = k
					}
					if v&2 != 0 {
						ee = end
					}
					if (v&1 != 0 && k == 0) || (v&2 != 0 && end == len(url)) || ee < kk {
						continue
					}
					// an empty core: the URL was only commas
					var r int
					if ee == kk {
						commas := ","
						if v == 3 {
							commas = ",,"
						}
						r = refTokenFrom(s, j, commas, false, false)
					} else {
						r = refTokenFrom(s, j, url[kk:ee], v&1 != 0, v&2 != 0)
					}
					if r >= 0 && (best < 0 || r < best) {
						best = r
					}
				}
				j = best
			}
			if j >= 0 && len(desc) > 0 {
				j = refTokenFrom(s, j, desc, false, false)
			}
			vAssert(j >= 0, "surviving URLs and descriptors are copied, in order, from the input")
		}
	}
	if ncand > 0 {
		vReach("candidates")
	}
	if ncand > 1 {
		vReach("two-candidates")
	}
	vAssert(ncand > 0, "the result always holds at least one candidate (the innocuous URL when nothing survives)")
}

func vHarness_C12_idempotent() {
	n := vParam("n")
	s := vNondetString("s", n)
	if vParam("ascii") == 1 {
		vASCII(s)
	}
	out := URLSetSanitized(s).String()
	vReach("ran")
	vAssert(URLSetSanitized(out).String() == out, "sanitizing an already sanitized value changes nothing")
}

func vProbe_C12_sanitize(a []string) string { return URLSetSanitized(a[0]).String() }
