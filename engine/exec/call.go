package exec

import (
	"fmt"
	"go/types"
	"strings"

	"golang.org/x/tools/go/ssa"

	"symgo/smt"
)

// Intrinsic models a function the engine does not execute from SSA.
type Intrinsic func(x *Exec, s *State, args []Value, call *ssa.Call) []Outcome

func (x *Exec) call(s *State, f *Frame, ins *ssa.Call) (stepResult, []*State, stopPoint) {
	common := ins.Common()
	var args []Value
	var fn *ssa.Function
	var env []Value
	if common.IsInvoke() {
		recv, ok := x.get(f, common.Value).(Iface)
		if !ok {
			unsupported("invoke on %T", x.get(f, common.Value))
		}
		if recv.T == nil {
			if x.raisePanic(s, "nil pointer dereference (method call on nil interface)") {
				return stepCont, nil, stopPoint{}
			}
			return stepDead, nil, stopPoint{}
		}
		if ext, isExt := recv.V.(*Ext); isExt {
			var res Value
			switch {
			case ext.Kind == "error" && common.Method.Name() == "Error":
				res = StrOf("error")
			case ext.Kind == "reflect.Type" && common.Method.Name() == "Elem":
				res = recv
			default:
				unsupported("method %s on %s handle", common.Method.Name(), ext.Kind)
			}
			f.Regs[ins] = res
			f.IP++
			f.AtStart = false
			return stepCont, nil, stopPoint{}
		}
		fn = x.W.Prog.LookupMethod(recv.T, common.Method.Pkg(), common.Method.Name())
		if fn == nil {
			unsupported("method %s not found on %s", common.Method.Name(), recv.T)
		}
		args = append(args, recv.V)
	} else {
		switch cv := x.get(f, common.Value).(type) {
		case *ssa.Function:
			fn = cv
		case *Closure:
			fn, env = cv.Fn, cv.Env
		case *ssa.Builtin:
			for _, a := range common.Args {
				args = append(args, x.get(f, a))
			}
			outs := x.builtin(s, cv, args, ins)
			return x.finishCall(s, f, ins, outs)
		case NilFunc:
			if x.raisePanic(s, "call of nil function") {
				return stepCont, nil, stopPoint{}
			}
			return stepDead, nil, stopPoint{}
		default:
			unsupported("call of %T", cv)
		}
	}
	for _, a := range common.Args {
		args = append(args, x.get(f, a))
	}
	// harness API
	if strings.HasPrefix(fn.Name(), "v") && fn.Pkg != nil && x.W.isHarnessAPI(fn) {
		return x.harnessCall(s, f, ins, fn, args)
	}
	if fn.Name() == "init" && fn.Pkg != nil && fn == fn.Pkg.Func("init") && !x.W.runsInit(fn.Pkg.Pkg.Path()) {
		// initialisers of packages the engine does not execute
		f.Regs[ins] = nil
		f.IP++
		f.AtStart = false
		return stepCont, nil, stopPoint{}
	}
	name := fn.String()
	if o := fn.Origin(); o != nil {
		name = o.String()
	}
	if in, ok := x.W.intrinsics[name]; ok {
		outs := in(x, s, args, ins)
		return x.finishCall(s, f, ins, outs)
	}
	if len(s.Frames) >= 12 && s.Model == nil && !x.Concrete {
		// deep recursion on an arm of unknown feasibility: settle it before going deeper
		res, m := x.pcSat(s)
		if res == smt.Unsat {
			x.LazyDropped++
			return stepDead, nil, stopPoint{}
		}
		if res == smt.Sat {
			s.Model = m
		}
	}
	if name == "html.UnescapeString" {
		// a pure function: reuse the result of an earlier call on the very same bytes
		if str, ok := args[0].(Str); ok {
			var kb strings.Builder
			kb.WriteString(name)
			for _, t := range str.B {
				if t.IsConst() {
					fmt.Fprintf(&kb, "|c%d", t.Val)
				} else {
					fmt.Fprintf(&kb, "|%d", t.ID())
				}
			}
			key := kb.String()
			if v, hit := s.Memo[key]; hit {
				f.Regs[ins] = v
				f.IP++
				f.AtStart = false
				return stepCont, nil, stopPoint{}
			}
			nf := x.pushFrame(s, fn, args, env, ins)
			nf.MemoKey = key
			return stepCont, nil, stopPoint{}
		}
	}
	x.pushFrame(s, fn, args, env, ins)
	return stepCont, nil, stopPoint{}
}

func (x *Exec) finishCall(s *State, f *Frame, ins *ssa.Call, outs []Outcome) (stepResult, []*State, stopPoint) {
	if len(outs) == 1 && outs[0].Cond == smt.True && outs[0].Panic == "" && outs[0].Cut == "" {
		if outs[0].Then != nil {
			outs[0].Then(s)
		}
		x.deliver(s, outs[0].Val)
		return stepCont, nil, stopPoint{}
	}
	return x.forkOn(s, outs, func(cs *State, o Outcome) bool {
		x.deliver(cs, o.Val)
		return true
	})
}

// ---------- builtins ----------

func (x *Exec) lenOf(s *State, v Value) int {
	switch v := v.(type) {
	case Str:
		return len(v.B)
	case Slice:
		return v.Len
	case MapRef:
		return len(x.mapGet(s, v).Keys)
	case *ArrayVal:
		return len(v.E)
	case Ptr:
		if a, ok := s.load(v).(*ArrayVal); ok {
			return len(a.E)
		}
	}
	unsupported("len of %T", v)
	return 0
}

func (x *Exec) builtin(s *State, b *ssa.Builtin, args []Value, ins *ssa.Call) []Outcome {
	switch b.Name() {
	case "len":
		return one(intConst(x.lenOf(s, args[0])))
	case "cap":
		switch v := args[0].(type) {
		case Slice:
			return one(intConst(v.Cap))
		default:
			return one(intConst(x.lenOf(s, v)))
		}
	case "append":
		dst := args[0].(Slice)
		var add []Value
		switch src := args[1].(type) {
		case Slice:
			add = s.sliceElems(src)
		case Str:
			add = make([]Value, len(src.B))
			for i, t := range src.B {
				add[i] = t
			}
		default:
			unsupported("append of %T", src)
		}
		if len(add) == 0 {
			return one(dst)
		}
		if dst.Obj != 0 && dst.Len+len(add) <= dst.Cap {
			// in place
			arr := s.sliceArr(dst)
			n := &ArrayVal{E: append([]Value(nil), arr.E...)}
			copy(n.E[dst.Off+dst.Len:], add)
			s.store(Ptr{dst.Obj, dst.Path}, n)
			return one(Slice{Obj: dst.Obj, Path: dst.Path, Off: dst.Off, Len: dst.Len + len(add), Cap: dst.Cap})
		}
		old := s.sliceElems(dst)
		el := make([]Value, 0, len(old)+len(add))
		el = append(el, old...)
		el = append(el, add...)
		return one(s.newSlice(el))
	case "copy":
		dst := args[0].(Slice)
		var src []Value
		switch sv := args[1].(type) {
		case Slice:
			src = s.sliceElems(sv)
		case Str:
			src = make([]Value, len(sv.B))
			for i, t := range sv.B {
				src[i] = t
			}
		}
		n := len(src)
		if dst.Len < n {
			n = dst.Len
		}
		if n > 0 {
			arr := s.sliceArr(dst)
			na := &ArrayVal{E: append([]Value(nil), arr.E...)}
			copy(na.E[dst.Off:dst.Off+n], src[:n])
			s.store(Ptr{dst.Obj, dst.Path}, na)
		}
		return one(intConst(n))
	case "delete":
		m := args[0].(MapRef)
		if m.Obj == 0 {
			return one(nil)
		}
		mv := x.mapGet(s, m)
		conds, idxs := x.keyCandidates(mv, args[1])
		if len(conds) == 0 {
			return one(nil)
		}
		if len(conds) == 1 && conds[0] == smt.True {
			n := &MapVal{Index: map[string]int{}}
			for i := range mv.Keys {
				if i == idxs[0] {
					continue
				}
				n.Keys = append(n.Keys, mv.Keys[i])
				n.Vals = append(n.Vals, mv.Vals[i])
				if ks, ok := mapKeyString(mv.Keys[i]); ok {
					n.Index[ks] = len(n.Keys) - 1
				}
			}
			s.hset(m.Obj, n)
			return one(nil)
		}
		unsupported("delete with symbolic key")
	case "min", "max":
		_, signed, _ := scalarInfo(ins.Type())
		r := args[0].(*smt.Term)
		for _, a := range args[1:] {
			at := a.(*smt.Term)
			var lt *smt.Term
			if signed {
				lt = x.Ctx.Slt(at, r)
			} else {
				lt = x.Ctx.Ult(at, r)
			}
			if b.Name() == "max" {
				lt = x.Ctx.Not(x.Ctx.Or(lt, x.Ctx.Eq(at, r)))
			}
			r = x.Ctx.Ite(lt, at, r)
		}
		return one(r)
	case "print", "println":
		return one(nil)
	case "ssa:wrapnilchk":
		if p, ok := args[0].(Ptr); ok && p.Obj == 0 {
			return panicOutcome("value method called through nil pointer")
		}
		return one(args[0])
	}
	if b.Name() == "String" {
		// unsafe.String(&b[i], n): the n bytes of the array starting at element i
		p, ok := args[0].(Ptr)
		n, okN := constInt(args[1])
		if ok && okN && p.Obj != 0 && len(p.Path) > 0 {
			base := Ptr{Obj: p.Obj, Path: p.Path[:len(p.Path)-1]}
			off := p.Path[len(p.Path)-1]
			if arr, isA := s.load(base).(*ArrayVal); isA && off >= 0 && off+n <= len(arr.E) {
				out := Str{B: make([]*smt.Term, n)}
				for i := 0; i < n; i++ {
					t, isT := arr.E[off+i].(*smt.Term)
					if !isT {
						unsupported("unsafe.String over non-byte elements")
					}
					out.B[i] = t
				}
				return one(out)
			}
		}
		unsupported("unsafe.String with this operand shape")
	}
	unsupported("builtin %s", b.Name())
	return nil
}

// ---------- harness API ----------

func (x *Exec) strArg(v Value) string {
	sv, ok := v.(Str)
	if !ok {
		unsupported("harness API: expected string, got %T", v)
	}
	cs, ok := sv.Concrete()
	if !ok {
		unsupported("harness API: expected concrete string")
	}
	return cs
}

func (x *Exec) newBytes(name string, n int) []*smt.Term {
	ts := make([]*smt.Term, n)
	if x.Concrete {
		val, ok := x.ConcreteInputs[name]
		if !ok {
			unsupported("concrete mode: no input %q", name)
		}
		if len(val) != n {
			unsupported("concrete mode: input %q has length %d, harness asked for %d", name, len(val), n)
		}
		for i := range ts {
			ts[i] = smt.Byte(val[i])
		}
		return ts
	}
	for _, in := range x.Inputs {
		if in.Name == name && len(in.Terms) == n {
			return in.Terms // the same input requested again on another path (environment stubs)
		}
	}
	for i := range ts {
		ts[i] = x.Ctx.Var(fmt.Sprintf("%s_%d", name, i), 8)
	}
	x.Inputs = append(x.Inputs, InputVar{Name: name, Terms: ts})
	return ts
}

func (x *Exec) harnessCall(s *State, f *Frame, ins *ssa.Call, fn *ssa.Function, args []Value) (stepResult, []*State, stopPoint) {
	c := x.Ctx
	done := func(v Value) (stepResult, []*State, stopPoint) {
		f.Regs[ins] = v
		f.IP++
		f.AtStart = false
		return stepCont, nil, stopPoint{}
	}
	switch fn.Name() {
	case "vParam":
		name := x.strArg(args[0])
		v, ok := x.Params[name]
		if !ok {
			unsupported("harness asks for parameter %q which the job does not define", name)
		}
		return done(intConst(v))
	case "vNondetString":
		name := x.strArg(args[0])
		n, ok := constInt(args[1])
		if !ok || n < 0 {
			unsupported("vNondetString length must be concrete")
		}
		return done(Str{B: x.newBytes(name, n)})
	case "vNondetBytes":
		name := x.strArg(args[0])
		n, ok := constInt(args[1])
		if !ok || n < 0 {
			unsupported("vNondetBytes length must be concrete")
		}
		return done(s.newByteSlice(Str{B: x.newBytes(name, n)}))
	case "vNondetByte":
		return done(x.newBytes(x.strArg(args[0]), 1)[0])
	case "vNondetBool":
		b := x.newBytes(x.strArg(args[0]), 1)[0]
		return done(c.Ne(c.Bin(smt.OpBvAnd, b, smt.Byte(1)), smt.Byte(0)))
	case "vNondetInt":
		// an int in [lo, hi], hi-lo < 256, built from one byte: lo + (b mod (hi-lo+1))
		name := x.strArg(args[0])
		lo, ok1 := constInt(args[1])
		hi, ok2 := constInt(args[2])
		if !ok1 || !ok2 || hi < lo || hi-lo > 255 {
			unsupported("vNondetInt needs concrete bounds with hi-lo <= 255")
		}
		b := x.newBytes(name, 1)[0]
		ok := c.Ule(b, smt.Byte(byte(hi-lo)))
		feas, m := x.feasible(s, ok)
		if !feas {
			x.Cut++
			return stepDead, nil, stopPoint{}
		}
		s.PC = append(s.PC, ok)
		s.Model = m
		return done(c.Add(c.Zext(b, 64), intConst(lo)))
	case "vAssume":
		cond := args[0].(*smt.Term)
		if len(args) > 1 {
			// optional description
		}
		feas, m := x.feasible(s, cond)
		if !feas {
			x.Cut++
			return stepDead, nil, stopPoint{}
		}
		if !(cond.IsConst()) {
			s.PC = append(s.PC, cond)
			s.Model = m
		}
		return done(nil)
	case "vAssert", "vAssertKnown":
		cond := args[0].(*smt.Term)
		msg := x.strArg(args[1])
		x.Obligations++
		if fn.Name() == "vAssertKnown" {
			id := x.strArg(args[2])
			class := args[3].(*smt.Term)
			// new violations: failing outside the known class
			ok, model, unknown := x.valid(s, c.Or(cond, class))
			if !ok {
				x.addFinding(s, "assert", msg, "", model, unknown)
			}
			// known class: failing inside it
			ok2, model2, unknown2 := x.valid(s, c.Or(cond, c.Not(class)))
			if !ok2 {
				x.addFinding(s, "assert", msg, id, model2, unknown2)
			}
			if ok && ok2 {
				x.Discharged++
			}
		} else {
			ok, model, unknown := x.valid(s, cond)
			if !ok {
				x.addFinding(s, "assert", msg, "", model, unknown)
			} else {
				x.Discharged++
			}
		}
		// continue under the assertion, as the native harness would only if it held
		feas, m := x.feasible(s, cond)
		if !feas {
			return stepDead, nil, stopPoint{}
		}
		if !cond.IsConst() {
			s.PC = append(s.PC, cond)
			s.Model = m
		}
		return done(nil)
	case "vReach":
		tag := x.strArg(args[0])
		if x.Reached == nil {
			x.Reached = map[string][]uint64{}
		}
		if _, seen := x.Reached[tag]; !seen {
			model := s.Model
			if model == nil && !x.Concrete {
				res, m := x.Solver.Check(s.PC, true)
				if res == smt.Sat {
					model = m
				}
			}
			if model != nil || x.Concrete {
				x.Reached[tag] = model
			}
		}
		return done(nil)
	case "vPanics":
		var cfn *ssa.Function
		var env []Value
		switch cv := args[0].(type) {
		case *ssa.Function:
			cfn = cv
		case *Closure:
			cfn, env = cv.Fn, cv.Env
		default:
			unsupported("vPanics argument %T", cv)
		}
		nf := x.pushFrame(s, cfn, nil, env, ins)
		nf.Catch = true
		return stepCont, nil, stopPoint{}
	case "vLog":
		return done(nil)
	}
	unsupported("unknown harness API function %s", fn.Name())
	return stepDead, nil, stopPoint{}
}

var _ = types.Identical
