#!/usr/bin/env python3
# Regenerates seeded/SUMMARY.md from the meta.json files.
import json, glob, os, re
rows=[]
for d in sorted(glob.glob('/verif/seeded/*/meta.json'), key=lambda p:(('-r2-' in p), p)):
    m=json.load(open(d)); sid=os.path.basename(os.path.dirname(d))
    c=m['check']; conf=m['confirmed']
    confirmed='yes' if (conf['builds_with_change']=='ok' and conf['existing_suite_with_change']=='ok' and conf['demo_with_change']=='fail' and conf['demo_without_change']=='pass') else 'NO'
    first='detected' if c.get('detected') else ('INCONCLUSIVE' if c.get('exit')==2 else 'missed')
    others=' '.join(c.get('other_checks_reporting',[]))
    rc=m.get('recheck',{})
    now=[]
    for prop,r in rc.items():
        now.append('%s: %s (HEAD %s%s)'%(prop,'detected' if r['detected'] else ('patch no longer applies' if r['exit']==-1 else 'exit %d'%r['exit']), r['repo_head'], ', '+r['patch'] if r['patch']!='patch.diff' else ''))
    h=''
    if rc:
        for prop,r in rc.items():
            mm=re.search(r'harness=(\w+)', r.get('detail',''))
            if mm: h=mm.group(1)
    else:
        mm=re.search(r'harness=(\w+)', c.get('detail',''))
        if mm: h=mm.group(1)
    rows.append((sid,confirmed,first+(' (reported by '+others+')' if others and not c.get('detected') else ''),'; '.join(now) if now else '-',h,c.get('note','')))
out=['# Seeded changes (written by independent sub-agents from the property text alone)','',
'Each directory holds `patch.diff`, `demo_test.go` (+ `demo_dir.txt`), the author\'s `README.md` and `meta.json`. Every change was confirmed with `tools/seed_eval.sh`: it builds, the existing tests pass with it, the demonstration fails with it and passes without it. "first run" is the result of the check of that property as it stood when the change arrived; "re-check" is `tools/seed_recheck.sh` with the checks as committed, against /repo\'s HEAD (with the later `fix:` commits) plus the patch. Regenerate with `tools/gen_seed_summary.py`.','',
'| seed | confirmed | first run (own check) | re-check with the committed checks | harness that reports it | note |','|---|---|---|---|---|---|']
for r in rows: out.append('| '+' | '.join(x.replace('|','/') for x in r)+' |')
n=len(rows); first=sum(1 for r in rows if r[2].startswith('detected')); 
final=sum(1 for r in rows if r[2].startswith('detected') or 'detected' in r[3])
out+=['','%d changes; %d detected on the first run; %d detected by the committed checks (first run or re-check).'%(n,first,final)]
open('/verif/seeded/SUMMARY.md','w').write('\n'.join(out)+'\n')
print(n,first,final)
