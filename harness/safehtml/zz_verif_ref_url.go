package safehtml

// Reference: WHATWG URL "basic URL parser", input pre-processing and the scheme
// start / scheme states (DESIGN.md Appendix A.1), as a scalar machine over bytes.

func refAlpha(b byte) bool { return ('a' <= b && b <= 'z') || ('A' <= b && b <= 'Z') }
func refDigit(b byte) bool { return '0' <= b && b <= '9' }

func refLowerByte(b byte) byte {
	if 'A' <= b && b <= 'Z' {
		return b + 32
	}
	return b
}

const (
	refPhaseLeading  uint8 = 0
	refPhaseInScheme uint8 = 1
	refPhaseNoScheme uint8 = 2
	refPhaseJS       uint8 = 3
	refPhaseOther    uint8 = 4 // a complete scheme that is not javascript
)

// refSchemeScan runs the scheme decision over s. It returns the final phase and
// whether a '&' was seen before the decision was taken.
func refSchemeScan(s string) (phase uint8, ampBefore bool) {
	const target = "javascript"
	k := uint8(0)
	dead := false
	for i := 0; i < len(s); i++ {
		b := s[i]
		if phase >= refPhaseNoScheme {
			continue
		}
		if b == '&' {
			ampBefore = true
		}
		if b == '\t' || b == '\n' || b == '\r' {
			continue // removed from the input wherever they occur
		}
		if phase == refPhaseLeading {
			if b <= 0x20 {
				continue // leading C0 control or space
			}
			if !refAlpha(b) {
				phase = refPhaseNoScheme
				continue
			}
			phase = refPhaseInScheme
		}
		if b == ':' {
			if k == 10 && !dead {
				phase = refPhaseJS
			} else {
				phase = refPhaseOther
			}
			continue
		}
		if !(refAlpha(b) || refDigit(b) || b == '+' || b == '-' || b == '.') {
			phase = refPhaseNoScheme
			continue
		}
		if k < 10 && refLowerByte(b) == target[k] {
			k++
		} else {
			dead = true
		}
	}
	return phase, ampBefore
}

func refSchemeIsJavascript(s string) bool {
	p, _ := refSchemeScan(s)
	return p == refPhaseJS
}
