package main

var props = map[string]*Prop{}

func reg(p *Prop) { props[p.ID] = p }

const identAlphabet = "abzAZ09-_ \n\x00:.$"

func init() {
	reg(&Prop{
		ID:    "C18",
		Title: "Identifier constructors admit only [A-Za-z][-_A-Za-z0-9]*, keep constant prefix",
		Harnesses: []HarnessSpec{
			{Pkg: "safehtml", Name: "vHarness_C18_constant", Quick: []ParamRange{{"n", 0, 8}}, Thorough: []ParamRange{{"n", 0, 16}}, Reach: []string{"accepted"},
				Desc: "IdentifierFromConstant(v): no panic => result == v and matches the byte-level recogniser"},
			{Pkg: "safehtml", Name: "vHarness_C18_prefix", Quick: []ParamRange{{"np", 0, 3}, {"n", 0, 6}}, Thorough: []ParamRange{{"np", 0, 4}, {"n", 0, 12}}, Reach: []string{"accepted"},
				Desc: "IdentifierFromConstantPrefix(p, v): no panic => result == p-v and matches the recogniser"},
		},
		Probes: []ProbeSpec{
			{Pkg: "safehtml", Name: "vProbe_C18_constant", NArgs: 1, Alphabet: identAlphabet, MaxLen: 8, N: 300, TestDir: ".", Extra: []string{"a\n", "a\xc3\xa9", "\xe2\x84\xaa", "A-_9"}},
			{Pkg: "safehtml", Name: "vProbe_C18_prefix", NArgs: 2, Alphabet: identAlphabet, MaxLen: 6, N: 300, Extra: []string{"a", "a\n", "b-", ""}},
		},
		Functions: []string{"safehtml.IdentifierFromConstant", "safehtml.IdentifierFromConstantPrefix", "safehtml.Identifier.String",
			"regexp patterns startsWithAlphabetPattern, onlyAlphanumericsOrHyphenPattern (read from the current source by executing package init)"},
		Bounds: map[string]string{
			"quick":    "value: every byte string of length 0..8 (constant form); prefix 0..3 bytes x value 0..6 bytes (prefix form); all 256 byte values per position",
			"thorough": "value: every byte string of length 0..16; prefix 0..4 x value 0..12",
		},
		Outside:    []string{"strings longer than the bounds", "the compile-time constant requirement on the prefix (C19)"},
		Intrinsics: []string{"regexp.MustCompile/MatchString = symbolic Thompson simulation of regexp/syntax's compiled program over UTF-8 decodings", "fmt.Sprintf feeding panic: not evaluated"},
	})

	reg(&Prop{
		ID:    "C20",
		Title: "TrustedSourceFromConstantDir keeps dynamic filenames inside the constant dir",
		Harnesses: []HarnessSpec{
			{Pkg: "template", Name: "vHarness_C20_dir", Quick: []ParamRange{{"pair", 0, 9}, {"n", 0, 6}}, Thorough: []ParamRange{{"pair", 0, 9}, {"n", 0, 12}}, Reach: []string{"accepted"},
				Desc: "for 10 (dir, src) pairs and every filename: success => no separator, no list separator, not '..', result == cleaned dir/src or its direct child"},
		},
		Probes: []ProbeSpec{
			{Pkg: "template", Name: "vProbe_C20_dir", NArgs: 3, Alphabet: "ab./:\\\x00 ", MaxLen: 6, N: 600, Extra: []string{"..", ".", "", "a/b", "../x", "a:b"}},
		},
		Functions: []string{"template.TrustedSourceFromConstantDir", "template.TrustedSource.String", "path/filepath.Join", "path/filepath.join", "path/filepath.Clean",
			"internal/filepathlite.Clean", "internal/filepathlite.(*lazybuf).{index,append,string}", "internal/filepathlite.volumeNameLen", "os.IsPathSeparator (stdlib bodies executed from SSA, linux)"},
		Bounds: map[string]string{
			"quick":    "filename: every byte string of length 0..6; (dir, src) from 10 representative constant pairs incl. empty, '.', '/', '..', unclean ones",
			"thorough": "filename: every byte string of length 0..12; same 10 pairs",
		},
		Outside:    []string{"filenames longer than the bound", "GOOS other than linux (separator '/', list separator ':')", "symlinks, NUL handling by the OS", "dir/src values other than the 10 pairs"},
		Intrinsics: []string{"strings.IndexAny, strings.Join: direct byte-vector definitions", "fmt.Errorf: opaque error token"},
	})

	urlAlphabet := "javscriptJAVSCRIPT:/?#&;x0+.- \t\n\r\x00\x01%="
	kLess := func(p map[string]int) bool { return p["k"] < p["n"] }
	reg(&Prop{
		ID:    "C11",
		Title: "URLSanitized returns its input or the innocuous URL, and never a javascript: URL",
		Harnesses: []HarnessSpec{
			{Pkg: "safehtml", Name: "vHarness_C11_sound", Quick: []ParamRange{{"ascii", 1, 1}, {"n", 0, 16}}, Thorough: []ParamRange{{"ascii", 1, 1}, {"n", 0, 20}}, Reach: []string{"accepted", "rejected"},
				Desc: "ASCII regime: out in {s, innocuous}; out == s => WHATWG scheme scanner finds no javascript scheme and no '&' before the scheme decision point"},
			{Pkg: "safehtml", Name: "vHarness_C11_sound", Quick: []ParamRange{{"ascii", 0, 0}, {"n", 0, 4}}, Thorough: []ParamRange{{"ascii", 0, 0}, {"n", 0, 5}},
				Desc: "general regime (arbitrary bytes, invalid UTF-8, U+0130, U+212A, ...): same obligations"},
			{Pkg: "safehtml", Name: "vHarness_C11_padded", Quick: []ParamRange{{"space", 0, 0}, {"nh", 4, 4}, {"nt", 7, 7}, {"k", 0, 140}}, Thorough: []ParamRange{{"space", 0, 0}, {"nh", 0, 10}, {"nt", 1, 11}, {"k", 0, 300}},
				Filter: func(p map[string]int) bool {
					k := p["k"]
					edge := k <= 2 || (k >= 12 && k <= 20) || (k >= 28 && k <= 36) || (k >= 50 && k <= 70) || (k >= 120 && k <= 136) || (k >= 250 && k <= 262)
					return edge && p["nh"]+p["nt"] == 11
				}, Reach: []string{"accepted"},
				Desc: "long structured inputs: symbolic head + k TAB bytes + symbolic tail (head+tail = 11 bytes, k around 0, 16, 32, 64, 128, 256): reaches javascript: split by many ignorable bytes"},
			{Pkg: "safehtml", Name: "vHarness_C11_padded", Quick: []ParamRange{{"space", 1, 1}, {"nh", 0, 0}, {"nt", 11, 11}, {"k", 0, 140}}, Thorough: []ParamRange{{"space", 1, 1}, {"nh", 0, 0}, {"nt", 11, 12}, {"k", 0, 300}},
				Filter: func(p map[string]int) bool {
					k := p["k"]
					return k <= 2 || (k >= 12 && k <= 20) || (k >= 28 && k <= 36) || (k >= 50 && k <= 70) || (k >= 120 && k <= 136) || (k >= 250 && k <= 262)
				},
				Desc: "k leading spaces + symbolic tail"},
			{Pkg: "safehtml", Name: "vHarness_C11_unescaped", Quick: []ParamRange{{"n", 0, 6}}, Thorough: []ParamRange{{"n", 0, 8}}, Reach: []string{"accepted"},
				Desc: "direct form of the character-reference clause: the real html.UnescapeString (executed from stdlib SSA with the real entity tables) of an accepted ASCII string has no javascript scheme"},
			{Pkg: "safehtml", Name: "vHarness_C11_complete_scheme", Quick: []ParamRange{{"ascii", 1, 1}, {"n", 2, 13}, {"k", 1, 12}}, Thorough: []ParamRange{{"ascii", 1, 1}, {"n", 2, 18}, {"k", 1, 17}}, Filter: kLess, Reach: []string{"premise"},
				Desc: "completeness (a): [A-Za-z0-9+.-]{k}: with scheme != javascript (any case) is returned unchanged"},
			{Pkg: "safehtml", Name: "vHarness_C11_complete_scheme", Quick: []ParamRange{{"ascii", 0, 0}, {"n", 2, 5}, {"k", 1, 4}}, Thorough: []ParamRange{{"ascii", 0, 0}, {"n", 2, 6}, {"k", 1, 5}}, Filter: kLess,
				Desc: "completeness (a), arbitrary bytes after the colon"},
			{Pkg: "safehtml", Name: "vHarness_C11_complete_relative", Quick: []ParamRange{{"ascii", 1, 1}, {"n", 0, 12}}, Thorough: []ParamRange{{"ascii", 1, 1}, {"n", 0, 18}}, Reach: []string{"premise"},
				Desc: "completeness (b): ':' and '&' only after the first '/', '?' or '#' => returned unchanged"},
			{Pkg: "safehtml", Name: "vHarness_C11_complete_relative", Quick: []ParamRange{{"ascii", 0, 0}, {"n", 0, 4}}, Thorough: []ParamRange{{"ascii", 0, 0}, {"n", 0, 5}},
				Desc: "completeness (b), arbitrary bytes"},
		},
		Probes: []ProbeSpec{
			{Pkg: "safehtml", Name: "vProbe_C11_sanitize", NArgs: 1, Alphabet: urlAlphabet, MaxLen: 14, N: 1500, TestDir: "template",
				Extra: []string{"javascript:alert(1)", "JaVaScRiPt:x", "java\tscript:x", " javascript:x", "javascr\u0130pt:x", "\u212a:x", "a\xffb:c", "&#106;avascript:x", "javascript&colon;x", "/a:b", "?x:y", "#:", "http://x", "x", ""}},
			{Pkg: "safehtml", Name: "vProbe_C11_ref", NArgs: 1, Alphabet: urlAlphabet, MaxLen: 14, N: 300, Extra: []string{"javascript:", "\x01 jAvAsCrIpT:", "java\nscript:", "javascriptx:", "javascrip:", "j:"}},
		},
		Functions: []string{"safehtml.URLSanitized", "safehtml.isSafeURL", "safehtml.URL.String", "safeURLPattern (from the current source)",
			"html.UnescapeString, html.unescapeEntity, html.populateMaps (stdlib SSA, real entity tables) in the _unescaped harness"},
		Bounds: map[string]string{
			"quick":    "ASCII strings of length 0..16 (all 128^n), arbitrary byte strings of length 0..4 (all 256^n); html.UnescapeString form: ASCII 0..6; completeness: ASCII 2..13 / 0..12, arbitrary bytes <= 5 / 4",
			"thorough": "ASCII strings 0..24, arbitrary byte strings 0..6; html.UnescapeString form: ASCII 0..8; completeness: ASCII up to 18, arbitrary bytes up to 6 / 5",
		},
		Outside: []string{"ASCII strings longer than the bound (a javascript: hidden behind more ignorable bytes than fit)", "non-ASCII strings longer than the smaller bound",
			"browser behaviour outside the WHATWG URL standard", "trailing C0/space stripping (cannot affect the scheme)"},
		Intrinsics: []string{"strings.ToLower: exact rune-wise model from unicode.CaseRanges (decode, map, encode)", "(*Regexp).FindStringSubmatch: leftmost-first backtracking over regexp/syntax's program, results guarded and decided by the solver",
			"sync.Once.Do, fmt.Errorf"},
	})

	reg(&Prop{
		ID:    "C10",
		Title: "HTMLEscaped yields inert, interchange-valid, round-tripping text for every input",
		Harnesses: []HarnessSpec{
			{Pkg: "safehtml", Name: "vHarness_C10_escaped", Quick: []ParamRange{{"n", 0, 3}}, Thorough: []ParamRange{{"n", 0, 4}}, Reach: []string{"ran"},
				Desc: "HTMLEscaped(s) == rune-wise reference; alphabet scan; utf8.ValidString (stdlib SSA)"},
			{Pkg: "safehtml", Name: "vHarness_C10_placement", Quick: []ParamRange{{"pre", 0, 5}, {"n", 0, 2}}, Thorough: []ParamRange{{"pre", 0, 5}, {"n", 0, 3}}, Reach: []string{"ran"},
				Desc: "placement: from the data, RCDATA (title, textarea) and quoted attribute-value tokenizer states the escaped text leaves the HTML tokenizer reference in the same state with all counters unchanged"},
			{Pkg: "safehtml", Name: "vHarness_C10_concat", Quick: []ParamRange{{"na", 0, 3}, {"nb", 0, 3}}, Thorough: []ParamRange{{"na", 0, 6}, {"nb", 0, 6}}, Reach: []string{"ran"},
				Desc: "HTMLConcat is plain concatenation (0, 1, 2 arguments)"},
			{Pkg: "safehtml", Name: "vHarness_C10_long", Quick: []ParamRange{{"k", 1021, 1023}, {"n", 3, 3}}, Thorough: []ParamRange{{"k", 1020, 1023}, {"n", 4, 4}}, Reach: []string{"ran"}, MaxVisits: 12000,
				Desc: "long inputs: 1020..1023 concrete ASCII bytes, then 3 (thorough 4) symbolic bytes, then a concrete tail: the symbolic window straddles offset 1024 (chunked implementations)"},
			{Pkg: "safehtml", Name: "vHarness_C10_long", Quick: []ParamRange{{"k", 62, 62}, {"n", 3, 3}}, Thorough: []ParamRange{{"k", 4092, 4095}, {"n", 3, 3}}, MaxVisits: 12000,
				Desc: "the same window at offsets 64 (quick) and 4096 (thorough)"},
			{Pkg: "safehtml", Name: "vHarness_C10_long", Quick: []ParamRange{{"k", 254, 254}, {"n", 3, 3}}, Thorough: []ParamRange{{"k", 252, 255}, {"n", 3, 3}}, MaxVisits: 12000,
				Desc: "the same window at offset 256 and, thorough, 60..63 / 508..511 via the other ranges"},
		},
		Probes: []ProbeSpec{
			{Pkg: "safehtml", Name: "vProbe_C10_escaped", NArgs: 1, Alphabet: "a&<>\"'\x00\x01\t\n\x0b\x0c\r\x1f\x7f\x80\x9f\xc2\xef\xb7\x90\xbf\xbe\xf0\xf4\x8f\xed\xa0 ", MaxLen: 8, N: 2000, TestDir: ".",
				Extra: []string{"\u0085", "\ufdd0", "\ufdef", "\ufffe", "\uffff", "\U0001fffe", "\U0010ffff", "\xed\xa0\x80", "\xc0\x80", "\u00a0", "\u2028", "\ufffd"}},
			{Pkg: "safehtml", Name: "vProbe_C10_ref", NArgs: 1, Alphabet: "a&<>\"'\x00\x0b\x7f\xc2\x80\x9f\xef\xb7\x90\xbf\xbe ", MaxLen: 6, N: 500, Extra: []string{"\u0085", "\ufdd0", "\U0002ffff"}},
		},
		Functions: []string{"safehtml.HTMLEscaped", "safehtml.escapeAndCoerceToInterchangeValid", "safehtml.coerceToUTF8InterchangeValid", "safehtml.HTMLConcat", "safehtml.HTML.String",
			"controlChar / controlAndNonCharacter as built by the real rangetable.Merge in the package initialiser", "unicode.Is, unicode.is16, unicode.is32 (stdlib SSA)", "unicode/utf8.ValidString (stdlib SSA, harness side)"},
		Bounds: map[string]string{
			"quick":    "every byte string of length 0..3 (every code point of <= 3 bytes, every invalid pattern of <= 3 bytes, all pairs and triples of shorter runes); HTMLConcat with 0..3 + 0..3 bytes",
			"thorough": "every byte string of length 0..4 (adds every astral code point incl. plane-end noncharacters and every 4-byte invalid pattern); HTMLConcat with 0..6 + 0..6 bytes",
		},
		Outside: []string{"strings longer than the bound other than the padded shapes of vHarness_C10_long (the function is a rune-wise map; that longer inputs add no behaviour is an argument, not part of the solver claim)",
			"html.UnescapeString round trip is implied by equality with the reference, not executed"},
		Intrinsics: []string{"html.EscapeString: the five replacements (forks on replacement length)", "range over string / []rune<->string conversions: symbolic UTF-8 codec", "bytes.Buffer"},
	})

	reg(&Prop{
		ID:    "C12",
		Title: "URLSetSanitized keeps only safe image candidates under the WHATWG srcset parser",
		Harnesses: []HarnessSpec{
			{Pkg: "safehtml", Name: "vHarness_C12_three", Quick: []ParamRange{{"n1", 1, 1}, {"n2", 1, 1}, {"m2", 1, 2}, {"n3", 1, 1}, {"m3", 0, 1}}, Thorough: []ParamRange{{"n1", 1, 2}, {"n2", 1, 1}, {"m2", 1, 2}, {"n3", 1, 2}, {"m3", 0, 1}}, Reach: []string{"candidates", "two-candidates"},
				Filter: func(p map[string]int) bool { return p["n1"]+p["n3"] <= 3 },
				Desc:   "three candidates U1 \" ,\" U2 \" \" D2 \",\" U3 [\" \" D3] with concrete separators and symbolic ASCII contents (an accepted, a dropped and another accepted candidate in one input)"},
			{Pkg: "safehtml", Name: "vHarness_C12_sanitized", Quick: []ParamRange{{"ascii", 1, 1}, {"n", 0, 5}}, Thorough: []ParamRange{{"ascii", 1, 1}, {"n", 0, 7}}, Reach: []string{"candidates", "innocuous", "two-candidates"},
				Desc: "re-parse the result with the WHATWG srcset splitter: every candidate URL is one URLSanitized keeps, descriptors number-like, bytes copied in order from the input, never empty"},
			{Pkg: "safehtml", Name: "vHarness_C12_sanitized", Quick: []ParamRange{{"ascii", 0, 0}, {"n", 0, 3}}, Thorough: []ParamRange{{"ascii", 0, 0}, {"n", 0, 4}},
				Desc: "same, arbitrary bytes"},
			{Pkg: "safehtml", Name: "vHarness_C12_idempotent", Quick: []ParamRange{{"ascii", 1, 1}, {"n", 0, 5}}, Thorough: []ParamRange{{"ascii", 1, 1}, {"n", 0, 6}}, Reach: []string{"ran"},
				Desc: "URLSetSanitized(URLSetSanitized(s)) == URLSetSanitized(s)"},
		},
		Probes: []ProbeSpec{
			{Pkg: "safehtml", Name: "vProbe_C12_sanitize", NArgs: 1, Alphabet: "ab:/ ,,\t\n\f\r12.x(wjavscript%)", MaxLen: 14, N: 2000,
				Extra: []string{"a.png 1x, b.png 2x", ",a,", "javascript:x 1x, /b 2w", "a 1e3x", "a 0x1p-2", "a inf", "a nan", "a 1_0", "a (1x, 2x)", "a,b", "a , b", "%2c", "a\f1x"}},
		},
		Functions: []string{"safehtml.URLSetSanitized", "safehtml.appendURLToSet", "safehtml.consumeIn", "safehtml.consumeNotIn", "safehtml.isOptionalSrcMetadataWellFormed", "safehtml.isSafeURL",
			"asciiWhitespace / srcsetMetachars tables as filled by the real init()"},
		Bounds: map[string]string{
			"quick":    "every ASCII string of length 0..5 and every byte string of length 0..3; idempotence for ASCII strings of length 0..5",
			"thorough": "every ASCII string of length 0..7 and every byte string of length 0..4; idempotence for ASCII strings 0..6",
		},
		Outside: []string{"strings longer than the bounds (at most 2-3 candidates fit)", "'number' is checked as: float-alphabet bytes, no parenthesis, at most one trailing letter (strconv.ParseFloat is a stub)",
			"'copied' is checked as: in-order subsequence of the input; an inserted edge %2c is not tied to a comma of the input"},
		Assumes:    []string{"strconv.ParseFloat(m) is an arbitrary function of m with err == nil only for non-empty m over the Go float alphabet"},
		Intrinsics: []string{"strconv.ParseFloat stub (validated natively: real ParseFloat on concrete arguments)", "bytes.Buffer", "regexp (isSafeURL) as in C11"},
	})

	truAlphabet := "htps:/ab.-[]\\\\%{}_e2#?&=~x "
	reg(&Prop{
		ID:    "C13",
		Title: "TrustedResourceURL builders confine dynamic parts to where the format puts them",
		Harnesses: []HarnessSpec{
			{Pkg: "safehtml", Name: "vHarness_C13_prefix", Quick: []ParamRange{{"ascii", 1, 1}, {"n", 0, 14}}, Thorough: []ParamRange{{"ascii", 1, 1}, {"n", 0, 20}}, Reach: []string{"accepted"},
				Desc: "IsSafeTrustedResourceURLPrefix(f) => f has one of the four documented prefix forms (hand-written recogniser), ASCII"},
			{Pkg: "safehtml", Name: "vHarness_C13_prefix", Quick: []ParamRange{{"ascii", 0, 0}, {"n", 0, 11}}, Thorough: []ParamRange{{"ascii", 0, 0}, {"n", 0, 14}},
				Desc: "same for arbitrary bytes (finds the non-ASCII case folds)"},
			{Pkg: "safehtml", Name: "vHarness_C13_format", Quick: []ParamRange{{"prefix", 0, 4}, {"t", 0, 6}, {"la", 0, 1}, {"lb", 0, 1}}, Thorough: []ParamRange{{"prefix", 0, 4}, {"t", 0, 8}, {"la", 0, 2}, {"lb", 0, 2}},
				Reach: []string{"substituted", "rejected-argument"}, ReachThorough: []string{"two-markers"},
				Desc: "format = safe prefix + symbolic tail, args a,b symbolic: result == reference substitution with percent-encoding; missing argument or '..' argument => error; no '..' segment with argument-derived bytes"},
			{Pkg: "safehtml", Name: "vHarness_C13_append", Quick: []ParamRange{{"nb", 0, 8}, {"n", 0, 3}}, Thorough: []ParamRange{{"nb", 0, 12}, {"n", 0, 4}}, Reach: []string{"accepted"},
				Desc: "TrustedResourceURLAppend: accepted <=> base has a safe prefix form; result == base ++ refEncode(s)"},
			{Pkg: "safehtml", Name: "vHarness_C13_params", Quick: []ParamRange{{"nb", 0, 3}, {"nk", 0, 1}, {"nv", 0, 1}}, Thorough: []ParamRange{{"nb", 0, 5}, {"nk", 0, 2}, {"nv", 0, 2}}, Reach: []string{"ran"},
				Desc: "TrustedResourceURLWithParams with two entries in both insertion orders: result == reference (fragment split, separator, sorted encoded pairs), independent of order"},
		},
		Probes: []ProbeSpec{
			{Pkg: "safehtml", Name: "vProbe_C13_format", NArgs: 3, Alphabet: truAlphabet, MaxLen: 12, N: 800, Extra: []string{"/p/%{a}%{b}", "https://h/%{a}/%{b}?x=%{a}", "/p/.%{a}", "//h/%{c}", ".", "..", "%2e", "a/b", ""}},
			{Pkg: "safehtml", Name: "vProbe_C13_append", NArgs: 2, Alphabet: truAlphabet, MaxLen: 10, N: 400, Extra: []string{"https://h/", "/p", "//", "about:blank#", "a b/c"}},
			{Pkg: "safehtml", Name: "vProbe_C13_prefix", NArgs: 1, Alphabet: truAlphabet, MaxLen: 14, N: 800, TestDir: "internal/safehtmlutil", Extra: []string{"http\u017f://a/", "//\u017f/", "about:blan\u212a#", "HTTPS://A/", "/\\", "//a", "///"}},
			{Pkg: "safehtml", Name: "vProbe_C13_params", NArgs: 3, Alphabet: truAlphabet, MaxLen: 6, N: 400, Extra: []string{"/a?", "/a?b=c#f", "/a#f?x", "k", "v w"}},
		},
		Functions: []string{"safehtml.trustedResourceURLFormat (and its closure)", "safehtml.TrustedResourceURLFormatFromConstant", "safehtml.TrustedResourceURLAppend", "safehtml.TrustedResourceURLWithParams",
			"safehtmlutil.IsSafeTrustedResourceURLPrefix", "safehtmlutil.URLContainsDoubleDotSegment", "safehtmlutil.QueryEscapeURL", "safehtmlutil.Stringify (string fast path)", "safehtmlutil.urlProcessor", "safehtmlutil.isHex",
			"patterns safeTrustedResourceURLPrefixPattern, urlDoubleDotSegmentPattern, trustedResourceURLFormatMarkerPattern from the current source"},
		Bounds: map[string]string{
			"quick":    "prefix recogniser: ASCII formats 0..14 bytes, arbitrary bytes 0..11; Format: 5 prefixes (one with a literal \"..\") x ASCII tail 0..6 x two arguments of 0..1 arbitrary bytes; Append: ASCII base 0..8 x string 0..3 bytes; WithParams: ASCII base 0..3, two entries with keys/values 0..1 bytes",
			"thorough": "prefix: ASCII 0..20, arbitrary 0..14; Format: tail 0..8, arguments 0..2 bytes; Append: base 0..12, string 0..4; WithParams: base 0..5, keys/values 0..2",
		},
		Outside:    []string{"TrustedResourceURLFormatFromFlag (differs only by flag.Value.String())", "more than two markers / arguments, longer tails", "maps with more than two entries (iteration orders explored: both orders of two entries)", "non-ASCII bytes in the format tail"},
		Intrinsics: []string{"(*Regexp).ReplaceAllStringFunc: leftmost-first segmentation by the engine, callback executed by the interpreter", "(*Regexp).MatchString", "sort.Strings (permutation fork)", "strings.Join/IndexByte/IndexRune", "fmt.Fprintf %%%02x"},
	})

	cssAlphabet := "ab01 ;:{}()\"'\\\\/*@!<,.-+#%_\t\n\fuUrRlL"
	reg(&Prop{
		ID:    "C15",
		Title: "StyleFromProperties emits exactly the declared CSS declarations, nothing else",
		Harnesses: []HarnessSpec{
			{Pkg: "safehtml", Name: "vHarness_C15_plain", Quick: []ParamRange{{"ascii", 1, 1}, {"field", 0, 14}, {"n", 0, 3}}, Thorough: []ParamRange{{"ascii", 1, 1}, {"field", 0, 14}, {"n", 0, 4}}, Reach: []string{"verbatim", "replaced"},
				Desc: "each of the 15 plain fields alone: chunk is name:body; body is v or the innocuous value; CSS tokenizer sees one declaration; verbatim values lie in the documented alphabet"},
			{Pkg: "safehtml", Name: "vHarness_C15_plain", Quick: []ParamRange{{"ascii", 1, 1}, {"field", 5, 5}, {"n", 4, 6}}, Thorough: []ParamRange{{"ascii", 1, 1}, {"field", 5, 5}, {"n", 5, 8}},
				Desc: "color field, longer ASCII values"},
			{Pkg: "safehtml", Name: "vHarness_C15_plain", Quick: []ParamRange{{"ascii", 1, 1}, {"field", 0, 0}, {"n", 4, 6}}, Thorough: []ParamRange{{"ascii", 1, 1}, {"field", 0, 0}, {"n", 5, 8}},
				Desc: "display field, longer ASCII values"},
			{Pkg: "safehtml", Name: "vHarness_C15_plain", Quick: []ParamRange{{"ascii", 0, 0}, {"field", 0, 5}, {"n", 1, 3}}, Thorough: []ParamRange{{"ascii", 0, 0}, {"field", 0, 5}, {"n", 1, 4}},
				Filter: func(p map[string]int) bool { return p["field"] == 0 || p["field"] == 5 }, Desc: "display and color with arbitrary bytes"},
			{Pkg: "safehtml", Name: "vHarness_C15_bgimage", Quick: []ParamRange{{"n1", 0, 2}, {"n2", -1, 1}}, Thorough: []ParamRange{{"n1", 0, 3}, {"n2", -1, 2}}, Reach: []string{"ran"},
				Filter: func(p map[string]int) bool { return p["n1"]+p["n2"] <= 3 },
				Desc:   "background-image with 1 or 2 items: equals url(\"cssEscape(URLSanitized(u))\") per reference escaper; tokenizer sees one declaration with that many quoted url() functions"},
			{Pkg: "safehtml", Name: "vHarness_C15_fontfamily", Quick: []ParamRange{{"ascii", 1, 1}, {"n", 0, 3}}, Thorough: []ParamRange{{"ascii", 1, 1}, {"n", 0, 4}}, Reach: []string{"ran"},
				Desc: "font-family with a symbolic name and a generic name: one declaration, list order kept"},
			{Pkg: "safehtml", Name: "vHarness_C15_fontfamily", Quick: []ParamRange{{"ascii", 0, 0}, {"n", 1, 2}}, Thorough: []ParamRange{{"ascii", 0, 0}, {"n", 1, 3}},
				Desc: "font-family, arbitrary bytes"},
			{Pkg: "safehtml", Name: "vHarness_C15_two", Quick: []ParamRange{{"n", 0, 2}}, Thorough: []ParamRange{{"n", 0, 3}}, Reach: []string{"ran"},
				Desc: "two fields set (color, width): exactly as many declarations as non-empty fields"},
		},
		Probes: []ProbeSpec{
			{Pkg: "safehtml", Name: "vProbe_C15_plain", NArgs: 2, Alphabet: cssAlphabet, MaxLen: 8, N: 1500, TestDir: ".", Extra: []string{"\x05", "\x00", "red", "a,b", "1px/2", "a/*b", "*/", "url(x)"}},
			{Pkg: "safehtml", Name: "vProbe_C15_bg", NArgs: 2, Alphabet: cssAlphabet + "javscript:", MaxLen: 8, N: 600, Extra: []string{"javascript:x", "a\"b", "\u2028", "\x00", "a\nb", "x\\y", "</style>"}},
			{Pkg: "safehtml", Name: "vProbe_C15_font", NArgs: 2, Alphabet: cssAlphabet, MaxLen: 8, N: 600, Extra: []string{"serif", "\"Times New Roman\"", "\"a", "a b", "\"\"", "\"x\""}},
			{Pkg: "safehtml", Name: "vProbe_C15_refescape", NArgs: 1, Alphabet: cssAlphabet + "\x00\x7f\x80\xc2\x9f\xe2\x80\xa8", MaxLen: 6, N: 600, Extra: []string{"\u2028", "\u2029", "\u0085", "\x00"}},
			{Pkg: "safehtml", Name: "vProbe_C15_implescape", NArgs: 1, Alphabet: cssAlphabet + "\x00\x7f\x80\xc2\x9f\xe2\x80\xa8", MaxLen: 6, N: 600, Extra: []string{"\u2028", "\u2029", "\u0085", "\x00"}},
		},
		Functions: []string{"safehtml.StyleFromProperties", "safehtml.filter", "safehtml.cssEscapeString", "safehtml.URLSanitized", "safehtml.isSafeURL",
			"patterns identifierPattern, safeRegularPropertyValuePattern, safeEnumPropertyValuePattern from the current source"},
		Bounds: map[string]string{
			"quick":    "each plain field: ASCII values 0..3 bytes (color, display: 0..6; arbitrary bytes 1..3); background-image: 1 item of 0..2 bytes or 2 items of 0..1 bytes; font-family: name of 0..3 ASCII / 1..2 arbitrary bytes; two fields of 0..2 bytes",
			"thorough": "plain fields 0..4 (color, display 0..8; arbitrary bytes 1..4); background-image items up to 3 bytes total; font-family 0..4 / 1..3; two fields of 0..3 bytes",
		},
		Outside: []string{"values longer than the bounds", "combinations of more than two fields (composition argued from: every chunk starts and ends in the tokenizer's initial state)", "list fields with more than two elements",
			"CSS tokenizer: character-class view of non-ASCII (bytes >= 0x80 are name characters)"},
		Intrinsics: []string{"fmt.Fprintf with %s and \\%06X", "(*bytes.Buffer) methods", "regexp MatchString", "range over string / WriteRune: symbolic UTF-8 codec", "strings.HasPrefix/HasSuffix from SSA"},
	})

	reg(&Prop{
		ID:    "C16",
		Title: "CSSRule yields exactly one rule: selectors cannot inject blocks, rules or markup",
		Harnesses: []HarnessSpec{
			{Pkg: "safehtml", Name: "vHarness_C16_rule", Quick: []ParamRange{{"ascii", 1, 1}, {"style", 1, 1}, {"n", 0, 7}}, Thorough: []ParamRange{{"ascii", 1, 1}, {"style", 0, 1}, {"n", 0, 7}}, Reach: []string{"accepted", "rejected"},
				Desc: "success => result == selector{style}; the CSS tokenizer run over the selector ends between tokens with all brackets closed, sees no ill-formed string/url, no { } ; @ comment or <"},
			{Pkg: "safehtml", Name: "vHarness_C16_rule", Quick: []ParamRange{{"ascii", 0, 0}, {"style", 1, 1}, {"n", 1, 3}}, Thorough: []ParamRange{{"ascii", 0, 0}, {"style", 1, 1}, {"n", 1, 4}},
				Desc: "same, arbitrary bytes"},
		},
		Probes: []ProbeSpec{
			{Pkg: "safehtml", Name: "vProbe_C16_rule", NArgs: 1, Alphabet: cssAlphabet + "[]=^$|~>", MaxLen: 12, N: 2000, TestDir: ".", Extra: []string{"a[href=\"x\"]", "url(x\"){\"y)", "a:not(.b)", "a\\", "\"a\nb\"", "'\\\n'", "a/*", "[a=']']", "((", ")("}},
			{Pkg: "safehtml", Name: "vProbe_C16_scan", NArgs: 1, Alphabet: cssAlphabet + "[]=^$|~>", MaxLen: 10, N: 300},
			{Pkg: "safehtml", Name: "vProbe_C16_fmt", NArgs: 3, Alphabet: "%%%svxXTdc;!(a{\"", MaxLen: 6, N: 1500, Extra: []string{"%", "a%", "%%", "%s%s%s", "%!", "{%s}", "%x%X", "%T"}},
		},
		Functions: []string{"safehtml.CSSRule", "safehtml.hasBalancedBrackets", "safehtml.StyleSheet.String", "container/list (stdlib SSA)", "patterns cssStringPattern, invalidCSSSelectorRune and matchingBrackets from the current source"},
		Bounds: map[string]string{
			"quick":    "every ASCII selector of length 0..7 and every byte string of length 1..3, style \"color:red;\"",
			"thorough": "every ASCII selector of length 0..7 (styles \"\" and \"color:red;\") and every byte string of length 1..4",
		},
		Outside:    []string{"selectors longer than the bounds (the full rule-injecting member of the known-finding family needs 40+ bytes; its 8-byte relatives are inside)", "Style values other than the two constants (they come from checked constructors)"},
		Intrinsics: []string{"(*Regexp).ReplaceAllString (leftmost-first segmentation)", "(*Regexp).FindStringSubmatch", "strings.ContainsRune", "fmt.Sprintf %s{%s}", "map iteration in insertion order (matchingBrackets: order-independent use)"},
	})

	reg(&Prop{
		ID:    "C17",
		Title: "ScriptFromDataAndConstant embeds data as an inert, round-tripping JSON literal (string data and marshaler-provided JSON text)",
		Harnesses: []HarnessSpec{
			{Pkg: "safehtml", Name: "vHarness_C17_string", Quick: []ParamRange{{"nn", 0, 4}, {"n", 0, 3}}, Thorough: []ParamRange{{"nn", 0, 5}, {"n", 0, 5}}, Reach: []string{"accepted", "rejected"},
				Filter: func(p map[string]int) bool { return p["nn"] <= 2 || p["n"] <= 2 },
				Desc:   "name and string data symbolic: success => name is an ASCII identifier, result == var name = J;\\nscript, J is a JSON string literal that a scalar JSON-string scanner finds inert (no raw quote / control / < > & / U+2028 / U+2029)"},
			{Pkg: "safehtml", Name: "vHarness_C17_raw", Quick: []ParamRange{{"n", 0, 5}}, Thorough: []ParamRange{{"n", 0, 6}}, Reach: []string{"accepted", "rejected"},
				Desc: "data that brings its own JSON text (json.RawMessage with symbolic bytes, as any json.Marshaler may): validated and compacted by the real encoding/json.appendCompact and scanner from stdlib SSA; success => result == var xy = J;\\nscript and J holds no raw < > & U+2028 U+2029"},
		},
		Probes: []ProbeSpec{
			{Pkg: "safehtml", Name: "vProbe_C17_raw", NArgs: 1, Alphabet: "\"[]{}:,0-1.eE tfn\\u<>&\xe2\x80\xa8\xa9\n", MaxLen: 8, N: 1500, Extra: []string{"null", "true", "\"<\"", "\"\u2028\"", "[1,2]", "{\"a\":\"&\"}", " 1 ", "1e5", "\"\\u003c\"", "[", "\"\xe2\x80\xa9\""}},
			{Pkg: "safehtml", Name: "vProbe_C17_script", NArgs: 2, Alphabet: "ab$_0\"\\\\<>&/\n\x00\x1f\xe2\x80\xa8\xa9\xff ", MaxLen: 6, N: 1500, TestDir: ".", Extra: []string{"x", "myVar", "9a", "a b", "\u2028", "\u2029", "</script>", "<!--", "\xff\xfe", "\u00e9"}},
		},
		Functions: []string{"safehtml.ScriptFromDataAndConstant", "safehtml.Script.String", "jsIdentifierPattern from the current source", "encoding/json.appendString[string] (stdlib SSA, with htmlSafeSet / hex built by executing encoding/json's initialiser)"},
		Bounds: map[string]string{
			"quick":    "names of 0..4 bytes x string data of 0..3 arbitrary bytes (longer names only with data <= 2 bytes); raw JSON text of 0..5 arbitrary bytes",
			"thorough": "names of 0..5 bytes x string data of 0..5 arbitrary bytes (names > 2 bytes only with data <= 2 bytes); raw JSON text of 0..6 bytes",
		},
		Outside: []string{"data values other than a Go string or a json.RawMessage: maps, slices, structs, numbers, TextMarshaler implementations, unencodable values (their encoding runs through reflect and the encoder cache, which the engine cannot encode); json.RawMessage stands for every json.Marshaler in that encoding/json treats the bytes a marshaler returns the same way",
			"the 'decodes back to the same JSON value' clause (needs the decoder)", "a change to an encoder API other than json.Marshal / (*json.Encoder).Encode is reported INCONCLUSIVE, not pass"},
		Intrinsics: []string{"encoding/json.Marshal and (*json.Encoder).Encode for dynamic type string = appendString[string](nil, v, escapeHTML) and for json.RawMessage = appendCompact(nil, raw, escapeHTML), both from stdlib SSA", "sync.Pool.Get = New()", "strings.Replacer", "fmt.Sprintf with %s", "regexp MatchString"},
	})

	ampOK := func(p map[string]int) bool { return p["amp"] < p["np"] && (p["amp"] != -2 || p["np"] >= 3) }
	reg(&Prop{
		ID:    "C14",
		Title: "Data interpolated after a static URL prefix stays inside its URL component",
		Harnesses: []HarnessSpec{
			{Pkg: "template", Name: "vHarness_C02_joinprefix", Quick: []ParamRange{{"ctx", 0, 2}, {"flagb", 0, 1}, {"flaga", 0, 1}, {"na", 0, 2}, {"nb", 0, 2}}, Thorough: []ParamRange{{"ctx", 0, 2}, {"flagb", 0, 1}, {"flaga", 0, 1}, {"na", 0, 3}, {"nb", 0, 3}}, Reach: []string{"ambiguous"},
				Desc: "static URL prefixes chosen by (nested) branches: after join the prefix is recorded as ambiguous whichever side carried the ambiguity, and an action after it is refused"},
			{Pkg: "template", Name: "vHarness_C14_prefix", Quick: []ParamRange{{"ctx", 0, 5}, {"amp", -1, -1}, {"np", 1, 8}}, Thorough: []ParamRange{{"ctx", 0, 5}, {"amp", -1, -1}, {"np", 1, 9}}, Reach: []string{"accepted", "rejected"},
				Desc: "prefixes without '&' in 6 URL contexts: accepted => no whitespace/control, no partial percent escape, scheme decided and not javascript (per WHATWG scanner), '/?#' or complete scheme present"},
			{Pkg: "template", Name: "vHarness_C14_prefix", Quick: []ParamRange{{"ctx", 0, 3}, {"amp", 0, 0}, {"np", 1, 4}}, Thorough: []ParamRange{{"ctx", 0, 3}, {"amp", 0, 1}, {"np", 1, 5}},
				Filter: func(p map[string]int) bool { return (p["ctx"] == 0 || p["ctx"] == 3) && ampOK(p) },
				Desc:   "prefixes with exactly one '&' at a fixed index (character references decoded by the real html.UnescapeString from stdlib SSA)"},
			{Pkg: "template", Name: "vHarness_C14_prefix", Quick: []ParamRange{{"ctx", 0, 0}, {"amp", -3, -3}, {"np", 4, 6}}, Thorough: []ParamRange{{"ctx", 0, 3}, {"amp", -2, -2}, {"np", 3, 7}},
				Filter: func(p map[string]int) bool { return p["ctx"] == 0 || p["ctx"] == 3 },
				Desc:   "prefix is one complete character reference &X;"},
			{Pkg: "template", Name: "vHarness_C14_prefix", Quick: []ParamRange{{"ctx", 0, 3}, {"amp", -5, -4}, {"k", 1, 3}, {"np", 5, 8}}, Thorough: []ParamRange{{"ctx", 0, 3}, {"amp", -5, -4}, {"k", 1, 4}, {"np", 5, 9}},
				Filter: func(p map[string]int) bool {
					return (p["ctx"] == 0 || p["ctx"] == 3) && p["np"]-p["k"] >= 4 && p["np"]-p["k"] <= 6
				},
				Desc: "a decimal character reference with k symbolic bytes before (-4) or after (-5) it"},
			{Pkg: "template", Name: "vHarness_C14_data", Quick: []ParamRange{{"ctx", 0, 5}, {"amp", -1, -1}, {"np", 1, 4}, {"nd", 0, 2}}, Thorough: []ParamRange{{"ctx", 0, 5}, {"amp", -1, -1}, {"np", 1, 5}, {"nd", 0, 2}},
				Filter: func(p map[string]int) bool { return p["ctx"] != 1 && p["ctx"] != 2 }, Reach: []string{"tru", "query", "path"},
				Desc: "accepted prefix without '&' + data: TrustedResourceURL contexts fully percent-encode and reject '..'; query/fragment prefixes fully percent-encode; otherwise reference normalisation + HTML escaping; no '..' segment with data-derived bytes"},
			{Pkg: "template", Name: "vHarness_C14_data", Quick: []ParamRange{{"ctx", 0, 0}, {"amp", -3, -3}, {"np", 4, 6}, {"nd", 1, 2}}, Thorough: []ParamRange{{"ctx", 0, 0}, {"amp", -2, -2}, {"np", 3, 7}, {"nd", 1, 2}},
				Filter: func(p map[string]int) bool { return p["np"] < 7 || p["nd"] == 1 },
				Desc:   "prefix is one complete character reference &X; (reaches &num; &#63; &quest;)"},
			{Pkg: "template", Name: "vHarness_C14_idempotent", Quick: []ParamRange{{"n", 0, 4}}, Thorough: []ParamRange{{"n", 0, 6}}, Reach: []string{"ran"},
				Desc: "NormalizeURL(NormalizeURL(d)) == NormalizeURL(d) == reference; QueryEscapeURL == reference encoder"},
		},
		Probes: []ProbeSpec{
			{Pkg: "template", Name: "vProbe_C14_chain", NArgs: 3, Alphabet: "ajs:/?#&;x93652%e.qut=A \"<>'", MaxLen: 9, N: 2500, TestDir: "template",
				Extra: []string{"/x&quest;q=", "&#63;", "&num;", "javascript&colon;", "/js/.", "https://a/", "//a/b?", "/a&#x9;", "a&colon;", ".", "..", "%2e%2E", "1&admin=1#f", "%41%zz%"}},
			{Pkg: "template", Name: "vProbe_C14_unescape", NArgs: 1, Alphabet: "&#;x0123456789abcdefquestnmlpg", MaxLen: 9, N: 1500, Extra: []string{"&amp", "&amp;", "&quest;", "&#63;", "&#x3f;", "&#X3F", "&lt", "&ltx", "&notit;", "&#0;", "&#x110000;", "&#xD800;", "&#128;"}},
		},
		Functions: []string{"template.sanitizerForContext", "template.sanitizersForAttributeValue", "template.sanitizationContextForAttrVal", "template.validateURLPrefix", "template.validateTrustedResourceURLPrefix", "template.decodeURLPrefix",
			"template.validateDoesNotEndsWithCharRefPrefix", "template.validateTrustedResourceURLSubstitution", "template.sanitizeHTML", "safehtmlutil.NormalizeURL", "safehtmlutil.QueryEscapeURL", "safehtmlutil.urlProcessor", "safehtmlutil.isHex",
			"safehtmlutil.URLContainsDoubleDotSegment", "safehtmlutil.IsSafeTrustedResourceURLPrefix", "safehtml.URLSanitized", "safehtml.HTMLEscaped", "html.UnescapeString / unescapeEntity with the real entity tables (stdlib SSA; also the oracle for 'what the browser sees')",
			"the policy tables and the five prefix patterns from the current source"},
		Bounds: map[string]string{
			"quick":    "6 URL contexts (a/href, img/src, form/action, script/src, link/href with rel=stylesheet and rel=icon); ASCII prefixes: without '&' 1..8 bytes, with one '&' at index 0 up to 4 bytes, decimal references &#d..; of 4..6 bytes; data 0..2 arbitrary bytes after prefixes of 1..4 bytes (and after the decimal references); normaliser/encoder: every byte string of length 0..4",
			"thorough": "prefixes without '&' up to 10 bytes, with one '&' (index 0 or 1) up to 5, &X; up to 7 (reaches &quest;); data 0..3 bytes after prefixes up to 6; normaliser/encoder up to 6 bytes",
		},
		Outside:    []string{"prefixes with two or more character references beyond the stated lengths", "non-ASCII bytes in the static prefix", "single-quoted values (same chain)", "attr.ambiguousValue (conditional prefixes)"},
		Assumes:    []string{"html.UnescapeString is both executed for the implementation and used as the oracle for the decoded prefix (Go's entity table is the WHATWG table)"},
		Intrinsics: []string{"safehtmlutil.Indirect / indirectToStringerOrError on the dynamic types string and the safe types", "fmt.Sprint, fmt.Fprintf %%%02x", "regexp MatchString / FindStringSubmatch", "strings.ContainsAny, strings.Fields (concrete)"},
	})

	reg(&Prop{
		ID:    "C03",
		Title: "Safe-type values bypass sanitization only in their own context; attribute values are escaped",
		Harnesses: []HarnessSpec{
			{Pkg: "template", Name: "vHarness_C03_matrix", Quick: []ParamRange{{"single", 0, 0}, {"type", 0, 6}, {"ind", 0, 2}, {"ctx", 0, 23}, {"n", 0, 2}},
				Thorough: []ParamRange{{"single", 0, 1}, {"type", 0, 6}, {"ind", 0, 2}, {"ctx", 0, 23}, {"n", 0, 3}}, Reach: []string{"bypass", "foreign"},
				Filter: func(p map[string]int) bool { return p["single"] == 0 || p["n"] <= 2 },
				Desc:   "7 safe types x {T, *T, **T} x 24 contexts, contents symbolic: outside the type's own context the chain treats the value exactly like the plain string (same output, same error-or-not); attribute output is HTML-escaped"},
		},
		Probes: []ProbeSpec{
			{Pkg: "template", Name: "vProbe_C03_chain", NArgs: 3, Alphabet: "ab<>\"'&/:?#.javscript 1x,_blank-ltr", MaxLen: 8, N: 4000, Extra: []string{"async", "ltr", "lazy", "_self", "javascript:x", "a\" onmouseover=\"x", "</script>", "/a b", "x 2x, y"}},
		},
		Functions: []string{"template.sanitizerForContext", "template.sanitizersForAttributeValue", "template.sanitizerForElementContent", "the sixteen sanitizers of template/sanitizers.go", "safehtmlutil.Stringify", "template.evalArgs",
			"safehtml.HTMLEscaped", "safehtml.URLSanitized", "safehtml.URLSetSanitized", "uncheckedconversions.*FromStringKnownToSatisfyTypeContract and the raw constructors (to build safe-type values with symbolic contents)"},
		Bounds: map[string]string{
			"quick":    "contents: every byte string of length 0..2; 7 types x 3 indirections x 24 context cells, double-quoted attributes",
			"thorough": "contents 0..4 bytes (single-quoted attributes: 0..2)",
		},
		Outside:    []string{"fmt.Stringer / error implementations other than the safe types", "pipelines with more than one argument", "user-supplied Funcs", "contents longer than the bound"},
		Intrinsics: []string{"safehtmlutil.Indirect / indirectToStringerOrError (reflect) modelled on the finite set of dynamic types used", "fmt.Sprint"},
	})

	reg(&Prop{
		ID:    "C04",
		Title: "Sanitization policy is default-deny and never weaker than the reviewed policy",
		Harnesses: []HarnessSpec{
			{Pkg: "template", Name: "vHarness_C04_attr", Quick: []ParamRange{{"rel", 0, 0}, {"le", 0, 24}, {"la", 0, 24}}, Thorough: []ParamRange{{"rel", 0, 0}, {"le", 0, 26}, {"la", 0, 26}}, Reach: []string{"accepted", "rejected"},
				Desc: "symbolic element and attribute names of every length 0..24 (all 256 byte values): accepted => the reviewed policy lists the pair and the class is at least the reviewed class"},
			{Pkg: "template", Name: "vHarness_C04_attr", Quick: []ParamRange{{"rel", 1, 10}, {"le", 4, 4}, {"la", 4, 4}}, Thorough: []ParamRange{{"rel", 1, 10}, {"le", 3, 5}, {"la", 3, 5}},
				Desc: "the link/href special case under ten rel values"},
			{Pkg: "template", Name: "vHarness_C04_joinnames", Quick: []ParamRange{{"attr", 0, 1}, {"n", 1, 1}, {"na", 0, 2}, {"nb", 0, 2}}, Thorough: []ParamRange{{"attr", 0, 1}, {"n", 1, 2}, {"na", 0, 2}, {"nb", 0, 2}}, Reach: []string{"joined"},
				Desc: "conditional names: join of two contexts with symbolic names and accumulated names lists keeps every possible element / attribute name (and the list invariant)"},
			{Pkg: "template", Name: "vHarness_C04_linkrel", Quick: []ParamRange{{"n0", 0, 1}, {"n1", 0, 4}, {"n2", 0, 1}, {"n3", 0, 5}}, Thorough: []ParamRange{{"n0", 0, 2}, {"n1", 0, 5}, {"n2", 0, 2}, {"n3", 0, 5}}, Reach: []string{"accepted", "url-allowed"},
				Filter: func(p map[string]int) bool {
					return p["n0"]+p["n1"]+p["n2"]+p["n3"] <= 6 && (p["n1"] == 4 || p["n3"] >= 4 || p["n0"]+p["n1"]+p["n3"] <= 3)
				},
				Desc: "link rel chosen by a branch: the real escaper over <link rel=\"T0{{if}}T1{{else}}T2{{end}}T3\" href=\"{{.}}\"> with symbolic texts over [a-z -] and space; href accepts a plain string only if the emitted rel value holds a reviewed URL-compatible token on both branches"},
			{Pkg: "template", Name: "vHarness_C04_element", Quick: []ParamRange{{"pre", 0, 4}, {"n", 0, 4}}, Thorough: []ParamRange{{"pre", 0, 4}, {"n", 0, 6}}, Reach: []string{"text", "element", "other"},
				Desc: "which element a content position belongs to: after a symbolic ASCII text (from the data state, optionally behind a concrete tag beginning) the escaper's context.element is the element of the last start tag the HTML tokenizer reference saw (nothing for void elements and after end tags)"},
			{Pkg: "template", Name: "vHarness_C04_urlchain", Quick: []ParamRange{{"rel", 0, 2}, {"le", 1, 6}, {"la", 3, 10}}, Thorough: []ParamRange{{"rel", 0, 10}, {"le", 1, 8}, {"la", 3, 10}}, Reach: []string{"url-context", "rejected"},
				Filter: func(p map[string]int) bool { return p["rel"] == 0 || (p["le"] == 4 && p["la"] == 4) },
				Desc:   "URL contexts always run the URL sanitizer and normalizer: for symbolic (element, attribute) names whose reviewed class is URL, TrustedResourceURL-or-URL or TrustedResourceURL the chain chosen by sanitizerForContext holds the class's sanitizer and _normalizeURL"},
			{Pkg: "template", Name: "vHarness_C04_condnames", Quick: []ParamRange{{"swap", 0, 1}, {"le", 1, 6}, {"la", 2, 6}}, Thorough: []ParamRange{{"swap", 0, 1}, {"le", 1, 8}, {"la", 2, 10}}, Reach: []string{"accepted", "rejected"},
				Desc: "attribute value with a conditional element name (two symbolic alternatives): accepted => both alternatives are listed for the attribute with the same reviewed class"},
			{Pkg: "template", Name: "vHarness_C04_voidnames", Quick: []ParamRange{{"v", 0, 3}, {"o", 0, 3}, {"swap", 0, 1}, {"n", 1, 2}}, Reach: []string{"closed"},
				Desc: "the '>' of a start tag whose name is conditional (a void and a non-void alternative) does not forget the non-void one"},
			{Pkg: "template", Name: "vHarness_C04_content", Quick: []ParamRange{{"le", 0, 24}}, Thorough: []ParamRange{{"le", 0, 40}}, Reach: []string{"accepted", "rejected"},
				Desc: "symbolic element name: element content accepted => listed, with the reviewed class"},
			{Pkg: "template", Name: "vHarness_C04_positions", Quick: []ParamRange{}, Reach: []string{"name-position", "unquoted", "accepted"},
				Desc: "symbolic state and delimiter: actions in tag/attribute-name positions and in unquoted values are rejected"},
			{Pkg: "template", Name: "vHarness_C04_typedonly", Quick: []ParamRange{{"ctx", 0, 7}, {"n", 0, 3}}, Thorough: []ParamRange{{"ctx", 0, 7}, {"n", 0, 5}}, Reach: []string{"ran"},
				Desc: "typed-only contexts (Script, StyleSheet, Style, Identifier, HTML-only, TrustedResourceURL) reject every plain string"},
			{Pkg: "template", Name: "vHarness_C04_enum", Quick: []ParamRange{{"ctx", 0, 3}, {"n", 0, 6}}, Thorough: []ParamRange{{"ctx", 0, 3}, {"n", 0, 8}}, Reach: []string{"word"},
				Desc: "enumerated contexts emit only listed words (= the input) and refuse static partial values"},
		},
		Probes: []ProbeSpec{
			{Pkg: "template", Name: "vProbe_C04_attr", NArgs: 3, Alphabet: "abdefhiklnorstuy-_A1 ", MaxLen: 10, N: 3000, TestDir: "template",
				Extra: []string{"a", "href", "link", "img", "src", "srcset", "data-x", "data-", "DATA-x", "onclick", "style", "input", "formaction", "iframe", "srcdoc", "aria-owns", "script", "foo", ""}},
			{Pkg: "template", Name: "vProbe_C04_ref", NArgs: 3, Alphabet: "abdefhiklnorstuy-_A1 ", MaxLen: 10, N: 500, Extra: []string{"a", "href", "link", "img", "src", "data-x", "input", "formaction"}},
		},
		Functions: []string{"template.sanitizationContextForAttrVal", "template.sanitizationContextForElementContent", "template.sanitizerForContext", "template.sanitizersForAttributeValue", "template.sanitizerForElementContent",
			"tables elementSpecificAttrValSanitizationContext, globalAttrValSanitizationContext, elementContentSanitizationContext, allowedVoidElements, urlLinkRelVals, the enum value maps and dataAttributeNamePattern, as built by the real package initialiser",
			"the typed-only and enum sanitizers"},
		Bounds: map[string]string{
			"quick":    "element and attribute names: every byte string of every length 0..24 each (the longest table key has 21 bytes), all 625 length pairs; plain-string data 0..3 bytes for typed-only chains, 0..6 for enum chains",
			"thorough": "names 0..26; element content names 0..40; data 0..5 / 0..8",
		},
		Outside: []string{"whether the reviewed policy (policy/reviewed_policy.json, snapshotted from the pinned tree) is itself right", "names longer than the bound (can match no table key; only dataAttributeNamePattern applies)",
			"how names lists are consumed beyond join/joinNames/tTag (escapeBranch composition)", "the link rel rule is compared as implemented (any URL-valued token); its weakness is C02's subject"},
		Intrinsics: []string{"map lookups with symbolic string keys (ite over the keys of equal length / fork per candidate)", "regexp MatchString", "strings.Fields on concrete rel values"},
	})

	reg(&Prop{
		ID:    "C02",
		Title: "Untrusted strings never reach code contexts; URLs never become javascript:",
		Harnesses: []HarnessSpec{
			{Pkg: "template", Name: "vHarness_C02_codeattr", Quick: []ParamRange{{"rel", 0, 0}, {"le", 0, 8}, {"la", 2, 8}, {"n", 1, 1}}, Thorough: []ParamRange{{"rel", 0, 0}, {"le", 0, 12}, {"la", 2, 12}, {"n", 0, 3}},
				Filter: func(p map[string]int) bool { return p["n"] <= 1 || (p["le"] <= 6 && p["la"] <= 6) }, Reach: []string{"code-context", "rejected", "typed"},
				Desc: "symbolic element and attribute names: where the reference list says 'code context' (on*, style, srcdoc, code-loading URL attributes) the action is rejected or the chain rejects every plain string"},
			{Pkg: "template", Name: "vHarness_C02_codeattr", Quick: []ParamRange{{"rel", 1, 10}, {"le", 4, 4}, {"la", 4, 4}, {"n", 1, 1}}, Thorough: []ParamRange{{"rel", 1, 10}, {"le", 4, 4}, {"la", 4, 4}, {"n", 0, 3}},
				Desc: "link/href under ten rel values (stylesheet, manifest, import, modulepreload make it a code context; tokens that merely contain a URL-valued word)"},
			{Pkg: "template", Name: "vHarness_C02_codecontent", Quick: []ParamRange{{"le", 5, 6}, {"n", 0, 3}}, Thorough: []ParamRange{{"le", 5, 6}, {"n", 0, 5}}, Reach: []string{"code-context"},
				Desc: "script and style element content reject plain strings"},
			{Pkg: "template", Name: "vHarness_C02_comment", Quick: []ParamRange{{"n", 0, 4}}, Thorough: []ParamRange{{"n", 0, 8}}, Reach: []string{"ran"}, Desc: "data in an HTML comment is dropped"},
			{Pkg: "template", Name: "vHarness_C02_url1", Quick: []ParamRange{{"ctx", 0, 5}, {"n", 0, 4}}, Thorough: []ParamRange{{"ctx", 0, 5}, {"n", 0, 7}}, Reach: []string{"emitted"},
				Filter: func(p map[string]int) bool { return p["n"] <= 5 || p["ctx"] == 0 },
				Desc:   "one action at the start of six URL attributes (ASCII data): the decoded value has no javascript scheme; emitted text is HTML-escaped"},
			{Pkg: "template", Name: "vHarness_C02_url2", Quick: []ParamRange{{"schemechars", 1, 1}, {"ctx", 0, 0}, {"n1", 0, 7}, {"n2", 0, 8}}, Thorough: []ParamRange{{"schemechars", 1, 1}, {"ctx", 0, 5}, {"n1", 0, 11}, {"n2", 0, 11}},
				Filter: func(p map[string]int) bool { return p["n1"]+p["n2"] <= 13 && (p["ctx"] == 0 || p["n1"]+p["n2"] == 11) }, Reach: []string{"emitted"},
				Desc: "two adjacent actions in one URL attribute, pieces over scheme characters and ':': the concatenation of the individually sanitized pieces has no javascript scheme"},
			{Pkg: "template", Name: "vHarness_C02_url2", Quick: []ParamRange{{"schemechars", 0, 0}, {"ctx", 0, 0}, {"n1", 0, 3}, {"n2", 0, 3}}, Thorough: []ParamRange{{"schemechars", 0, 0}, {"ctx", 0, 0}, {"n1", 0, 4}, {"n2", 0, 7}},
				Filter: func(p map[string]int) bool { return p["n1"]+p["n2"] <= 6 || (p["n1"] == 4 && p["n2"] == 7) },
				Desc:   "two adjacent actions, arbitrary ASCII pieces"},
			{Pkg: "template", Name: "vHarness_C02_joinprefix", Quick: []ParamRange{{"ctx", 0, 4}, {"flagb", 0, 1}, {"flaga", 0, 1}, {"na", 0, 2}, {"nb", 0, 2}}, Thorough: []ParamRange{{"ctx", 0, 4}, {"flagb", 0, 1}, {"flaga", 0, 1}, {"na", 0, 3}, {"nb", 0, 3}}, Reach: []string{"ambiguous"},
				Desc: "branches with different static attribute prefixes (symbolic): join records the ambiguity and an action after it is refused in URL and enumerated attributes, whichever prefix was kept"},
			{Pkg: "safehtml", Name: "vHarness_C12_sanitized", Quick: []ParamRange{{"ascii", 1, 1}, {"n", 0, 4}}, Thorough: []ParamRange{{"ascii", 1, 1}, {"n", 0, 6}},
				Desc: "srcset candidates (the sanitizer behind _sanitizeURLSet): every candidate the WHATWG srcset parser finds in URLSetSanitized(s) has a URL that URLSanitized leaves unchanged"},
			{Pkg: "template", Name: "vHarness_C01_text", Quick: []ParamRange{{"pre", 5, 5}, {"n", 8, 8}}, Thorough: []ParamRange{{"pre", 5, 5}, {"n", 7, 8}},
				Desc: "where a script/style body ends: the escaper's context after a style-body text agrees with the HTML tokenizer (an action after a miscounted end tag would be sanitized as HTML text inside the element)"},
			{Pkg: "safehtml", Name: "vHarness_C11_sound", Quick: []ParamRange{{"ascii", 1, 1}, {"n", 8, 13}}, Thorough: []ParamRange{{"ascii", 1, 1}, {"n", 0, 16}},
				Desc: "the URL sanitizer behind _sanitizeURL: an accepted ASCII string (lengths around \"javascript:\") has no javascript scheme under the WHATWG scanner"},
			{Pkg: "template", Name: "vHarness_C14_prefix", Quick: []ParamRange{{"ctx", 0, 0}, {"amp", -5, -4}, {"k", 1, 3}, {"np", 5, 8}}, Thorough: []ParamRange{{"ctx", 0, 3}, {"amp", -5, -4}, {"k", 1, 3}, {"np", 5, 8}},
				Filter: func(p map[string]int) bool {
					return (p["ctx"] == 0 || p["ctx"] == 3) && p["np"]-p["k"] >= 4 && p["np"]-p["k"] <= 6
				},
				Desc: "static URL prefixes with a decimal character reference next to symbolic bytes (validateURLPrefix sees what the browser decodes)"},
			{Pkg: "template", Name: "vHarness_C02_mangle", Quick: []ParamRange{{"relvar", 0, 1}, {"ctx", 0, 5}, {"n1", 0, 2}, {"n2", 0, 2}}, Thorough: []ParamRange{{"relvar", 0, 1}, {"ctx", 0, 5}, {"n1", 0, 3}, {"n2", 0, 3}},
				Filter: func(p map[string]int) bool { return p["relvar"] == 0 || p["ctx"] == 4 }, Reach: []string{"same-name"},
				Desc: "two URL-attribute contexts with symbolic static prefixes (and differing rel): equal mangled names => equal sanitizer chains"},
		},
		Probes: []ProbeSpec{
			{Pkg: "template", Name: "vProbe_C02_url2", NArgs: 2, Alphabet: "javscriptJAVSCRIPT:/?#& x1", MaxLen: 8, N: 1500, Extra: []string{"java", "script:alert(1)", "javascript:", "JAVA", "SCRIPT:", " java", "/x"}},
			{Pkg: "template", Name: "vProbe_C02_mangle", NArgs: 3, Alphabet: "ahreflinkmgscpt/?x", MaxLen: 6, N: 300, Extra: []string{"a", "href", "link", "img", "src", "/p?"}},
		},
		Functions: []string{"template.sanitizerForContext", "template.sanitizersForAttributeValue", "template.sanitizationContextForAttrVal", "template.sanitizerForElementContent", "template.mangle (with the generated state/delim String methods)",
			"the sixteen run-time sanitizers", "safehtml.URLSanitized", "safehtmlutil.NormalizeURL", "template.sanitizeHTMLComment"},
		Bounds: map[string]string{
			"quick":    "names 0..8 bytes with 1 byte of data; URL data: one action 0..4 ASCII bytes in 6 contexts; two actions: pieces over scheme characters up to 7+8 bytes (a/href), arbitrary ASCII pieces up to 3+3; mangle: static prefixes 0..2 bytes each",
			"thorough": "names 0..12, data 0..3; one action 0..7 bytes; two actions: scheme characters up to 11+11 with total <= 13 in 6 contexts, arbitrary ASCII up to 4+7; mangle: prefixes 0..3",
		},
		Outside: []string{"three or more actions in one attribute (the context is unchanged by an action, so action k is chosen like action 2: argued, not checked)", "actions separated by static text (covered for the prefix part by C14)",
			"loops and called templates beyond the mangle obligation", "schemes other than javascript", "URL-bearing attributes absent from policy/code_contexts.json", "the srcset clause is C12's",
			"decoding of the emitted attribute value is linked to the pre-escape value by C10's round trip (argument)"},
		Intrinsics: []string{"strings.Title (concrete)", "safehtmlutil.Indirect / Stringify", "map lookups with symbolic keys"},
	})

	reg(&Prop{
		ID:    "C01",
		Title: "Template markup structure is never altered by untrusted data (unit lemmas)",
		Harnesses: []HarnessSpec{
			{Pkg: "template", Name: "vHarness_C01_text", Quick: []ParamRange{{"pre", 0, 16}, {"n", 0, 4}}, Thorough: []ParamRange{{"pre", 0, 16}, {"n", 0, 4}}, Reach: []string{"accepted", "rejected", "stable"},
				Filter: func(p map[string]int) bool { return p["n"] <= 5 || p["pre"] == 0 },
				Desc:   "L1+L2: one ASCII text node from 17 (context, tokenizer state) pre-states through the real escapeText: the rewritten text has the author's tags/attributes and no comment; the resulting context agrees with the tokenizer state of the output"},
			{Pkg: "template", Name: "vHarness_C01_text", Quick: []ParamRange{{"pre", 0, 0}, {"n", 5, 5}}, Thorough: []ParamRange{{"pre", 0, 0}, {"n", 5, 5}},
				Desc: "longer text from the data state (reaches <xmp>); script-data escaped pre-states"},
			{Pkg: "template", Name: "vHarness_C01_text", Quick: []ParamRange{{"pre", 17, 17}, {"n", 9, 9}}, Thorough: []ParamRange{{"pre", 17, 17}, {"n", 9, 9}},
				Desc: "script double-escaped pre-state with a 9-byte text (reaches </script>)"},
			{Pkg: "template", Name: "vHarness_C01_text", Quick: []ParamRange{{"pre", 5, 5}, {"n", 8, 8}}, Thorough: []ParamRange{{"pre", 5, 5}, {"n", 8, 8}},
				Desc: "style element body with an 8-byte text (reaches </style followed by any byte: the end-tag separator set of indexTagEnd)"},
			{Pkg: "template", Name: "vHarness_C01_action", Quick: []ParamRange{{"pre", 0, 18}, {"n", 0, 3}}, Thorough: []ParamRange{{"pre", 0, 18}, {"n", 0, 3}}, Reach: []string{"accepted", "rejected"},
				Desc: "L3: where sanitizerForContext(nudge(c)) accepts an action the tokenizer is in a text or quoted-value state and the sanitized data leaves its state and counters unchanged"},
			{Pkg: "template", Name: "vHarness_C01_join", Quick: []ParamRange{{"a", 0, 16}, {"b", 0, 16}}, Reach: []string{"joined", "rejected"},
				Desc: "L4: join(a, b) not an error => the joined context agrees with the tokenizer state of both branches"},
			{Pkg: "template", Name: "vHarness_C01_range", Quick: []ParamRange{{"prefix", 0, 11}, {"n0", 0, 1}, {"n1", 0, 2}, {"n2", 0, 2}, {"n3", 1, 1}, {"nd", 1, 1}},
				Thorough: []ParamRange{{"prefix", 0, 11}, {"n0", 0, 1}, {"n1", 0, 2}, {"n2", 0, 2}, {"n3", 1, 1}, {"nd", 1, 1}}, Reach: []string{"accepted", "rejected"}, Eager: true,
				Desc: "composition over a loop: the real escapeBranch (with its re-entry pass) over P T0 {{range .}}T1 {{.}} T2{{end}} T3 with symbolic ASCII texts; the assembled output for 0, 1 and 2 iterations has the same token stream for an inert and a symbolic data value"},
			{Pkg: "template", Name: "vHarness_C01_loopexit", Quick: []ParamRange{{"kind", 0, 1}, {"prefix", 0, 5}, {"n0", 0, 0}, {"n1", 0, 3}, {"n2", 0, 1}, {"n3", 0, 1}, {"n4", 0, 0}, {"nd", 1, 1}},
				Thorough: []ParamRange{{"kind", 0, 1}, {"prefix", 0, 5}, {"n0", 0, 0}, {"n1", 0, 3}, {"n2", 0, 1}, {"n3", 0, 1}, {"n4", 0, 0}, {"nd", 1, 1}}, Reach: []string{"rejected"}, Eager: true,
				Desc: "loop exits: P T0 {{range .}}T1{{if .}}{{break|continue}}{{end}}T2{{end}} T3 {{.}} T4 - the escaper refuses the node (panic, nothing executed) or the output after an early exit has the same token stream for an inert and a symbolic data value"},
			{Pkg: "template", Name: "vHarness_C01_call", Quick: []ParamRange{{"prefix", 0, 6}, {"rec", 0, 1}, {"mid", 0, 1}, {"twice", 0, 1}, {"n0", 0, 0}, {"n1", 0, 1}, {"n2", 0, 1}, {"n5", 0, 1}, {"n6", 0, 0}, {"n3", 0, 0}, {"n4", 0, 2}, {"nd", 1, 1}},
				Thorough: []ParamRange{{"prefix", 0, 6}, {"rec", 0, 1}, {"mid", 0, 1}, {"twice", 0, 1}, {"n0", 0, 0}, {"n1", 0, 1}, {"n2", 0, 1}, {"n5", 0, 1}, {"n6", 0, 0}, {"n3", 0, 0}, {"n4", 0, 2}, {"nd", 1, 1}}, Reach: []string{"accepted", "rejected"}, Eager: true,
				Filter: func(p map[string]int) bool {
					return (p["mid"] == 0 || (p["prefix"] >= 2 && p["prefix"] <= 4)) && (p["twice"] == 0 || p["mid"] == 0) && p["n0"]+p["n1"]+p["n2"]+p["n5"]+p["n3"]+p["n4"] <= 4
				},
				Desc: "composition over template calls: the real escapeTree / computeOutCtx / escapeTemplateBody (derived templates per start context, fixed-point rule for recursion) over main = P T0 {{template \"y\"}} T3 {{.}} T4 and y = T1 [{{if}}{{template \"y\"}}{{end}}] T2 M T5; the output assembled from the trees the escaper produced, for recursion depths 0..2, has the same token stream for an inert and a symbolic data value"},
			{Pkg: "template", Name: "vHarness_C01_call", Quick: []ParamRange{{"prefix", 0, 0}, {"rec", 0, 0}, {"mid", 1, 1}, {"twice", 1, 1}, {"n0", 0, 0}, {"n1", 0, 0}, {"n2", 2, 2}, {"n5", 1, 1}, {"n6", 0, 0}, {"n3", 2, 2}, {"n4", 2, 2}, {"nd", 1, 1}},
				Thorough: []ParamRange{{"prefix", 0, 0}, {"rec", 0, 0}, {"mid", 1, 1}, {"twice", 1, 1}, {"n0", 0, 0}, {"n1", 0, 0}, {"n2", 2, 2}, {"n5", 1, 1}, {"n6", 0, 0}, {"n3", 2, 2}, {"n4", 2, 2}, {"nd", 1, 1}}, Eager: true,
				Desc: "a helper that opens a tag and an attribute (T2 \" title=\" T5), called twice from the same start context: the second call takes escapeTree's \"already escaped\" path"},
			{Pkg: "template", Name: "vHarness_C01_call", Quick: []ParamRange{{"prefix", 0, 4}, {"rec", 2, 2}, {"mid", 0, 2}, {"twice", 0, 0}, {"n0", 0, 0}, {"n1", 0, 0}, {"n2", 0, 2}, {"n5", 0, 0}, {"n6", 0, 1}, {"n3", 0, 1}, {"n4", 0, 1}, {"nd", 1, 1}},
				Thorough: []ParamRange{{"prefix", 0, 4}, {"rec", 2, 2}, {"mid", 0, 2}, {"twice", 0, 0}, {"n0", 0, 0}, {"n1", 0, 0}, {"n2", 0, 2}, {"n5", 0, 0}, {"n6", 0, 1}, {"n3", 0, 1}, {"n4", 0, 1}, {"nd", 1, 1}}, Eager: true,
				Filter: func(p map[string]int) bool {
					return p["n1"]+p["n2"]+p["n5"]+p["n6"]+p["n3"]+p["n4"] <= 4 && (p["mid"] != 1 || (p["prefix"] >= 2 && p["prefix"] <= 4)) && (p["mid"] != 2 || p["prefix"] <= 1)
				},
				Desc: "mutual recursion: y = T1 {{if}}{{template z}}{{end}} T2 M T5 and z = {{template y}} T6 (the fixed-point rule has to see the indirect self-call)"},
			{Pkg: "template", Name: "vHarness_C01_shape", Quick: []ParamRange{{"prefix", 0, 12}, {"n0", 0, 1}, {"n1", 0, 1}, {"n2", 0, 1}, {"n3", 0, 1}, {"n4", 1, 1}, {"nd", 1, 1}},
				Thorough: []ParamRange{{"prefix", 0, 12}, {"n0", 0, 1}, {"n1", 0, 1}, {"n2", 0, 1}, {"n3", 0, 1}, {"n4", 1, 1}, {"nd", 1, 1}}, Reach: []string{"accepted", "rejected"}, Eager: true,
				Filter: func(p map[string]int) bool { return p["n0"]+p["n1"]+p["n2"]+p["n3"]+p["n4"] <= 4 },
				Desc:   "composition: the real escapeList / escapeBranch / join / escapeAction / escapeText over a hand-built tree P T0 {{if}}T1{{else}}T2{{end}} T3 {{.}} T4 with symbolic ASCII texts; the assembled output of both branches has the same token stream for an inert and a symbolic data value"},
		},
		Probes: []ProbeSpec{
			{Pkg: "template", Name: "vProbe_C01_escape", NArgs: 2, Alphabet: "<>/!-=\"' abdivscrptxm\t\n\f&;", MaxLen: 12, N: 3000, TestDir: "template",
				Extra: []string{"<a href=\"x\">", "<!-- c -->", "</script>", "<script>", "</SCRIPT\f>", "<textarea>", "a < b", "<!DOCTYPE html>", "<br/>", "<a b=c d='e'>", "x-->y", "<xmp>"}},
			{Pkg: "template", Name: "vProbe_C01_tok", NArgs: 1, Alphabet: "<>/!-=\"' abdivscrptxm\t\n\f", MaxLen: 12, N: 300},
		},
		Functions: []string{"template.(*escaper).escapeText", "template.contextAfterText", "template.tText", "template.tTag", "template.tAttrName", "template.tAfterName", "template.tBeforeValue", "template.tHTMLCmt", "template.tSpecialTagEnd",
			"template.indexTagEnd", "template.tAttr", "template.tError", "template.eatAttrName", "template.eatTagName", "template.eatWhiteSpace", "template.isJsTemplateBalanced / consumeJsTemplate / consumeJsTemplateExpr", "template.nudge", "template.join", "template.joinNames",
			"template.sanitizerForContext and the run-time sanitizers", "template.editTextNode", "safehtml.HTMLEscaped"},
		Bounds: map[string]string{
			"quick":    "text nodes: every ASCII string of length 0..4 from each of 17 pre-states (0..5 from the data state; 9 bytes from the script double-escaped state); action data: every byte string of length 0..3 in 19 pre-states; join: all 289 pairs of pre-states",
			"thorough": "identical to quick: deeper bounds for the text lemmas (n 6..9) and the composition harnesses (one more byte per text, 2 data bytes) were tried and did not finish within the 45-minute calibration cap, so they are not registered",
		},
		Outside: []string{"text/template's lexer, parser and executor; the composition of the lemmas over if/range/with/template (escapeBranch, escapeTree): argued in DESIGN.md, not mechanised",
			"text nodes that end in the middle of a token (transient tokenizer states at node boundaries are skipped by L2)", "non-ASCII bytes in static text", "foreign (SVG/MathML) content, Delims, CSP-compatible mode",
			"violations are lemma violations of the units, replayed natively on the units; end-to-end templates for the recorded findings are in /verif/findings"},
		Intrinsics: []string{"bytes.Index/IndexByte/IndexAny/Equal/EqualFold/HasPrefix/ToUpper/Contains, bytes.Buffer", "strings.ToLower", "template.errorf: error message not built", "html.UnescapeString (stdlib SSA)"},
	})

	reg(&Prop{
		ID:    "C05",
		Title: "Templates that cannot be contextualized never produce output (sticky) - bounded histories, executor stubbed",
		Harnesses: []HarnessSpec{
			{Pkg: "template", Name: "vHarness_C05_sticky", Quick: []ParamRange{{"prefix", 0, 9}, {"n0", 0, 1}, {"n1", 0, 2}, {"n2", 0, 2}}, Thorough: []ParamRange{{"prefix", 0, 11}, {"n0", 0, 1}, {"n1", 0, 2}, {"n2", 0, 2}}, Reach: []string{"analysis-failed", "executed", "tohtml-error", "uncontextualizable", "caller-executed"},
				Filter: func(p map[string]int) bool { return p["n1"] == 0 || p["n2"] == 0 || p["n1"]+p["n2"] <= 2 },
				Desc:   "two calls chosen symbolically among Execute, ExecuteTemplate, ExecuteToHTML, ExecuteTemplateToHTML on main = P T0 {{.M}} T1 (symbolic ASCII texts), ExecuteTemplate on a caller of main and on an unrelated template, with a data value that decides whether execution fails at run time: once main's analysis has failed every later call on it or on its caller returns an error and writes nothing, its parse tree is gone, and the ToHTML variants return the zero HTML whenever they return an error"},
			{Pkg: "template", Name: "vHarness_C08_history", Quick: []ParamRange{{"prefix", 0, 9}, {"n0", 0, 1}, {"n1", 0, 1}, {"n2", 0, 2}, {"n3", 0, 0}}, Thorough: []ParamRange{{"prefix", 0, 11}, {"n0", 0, 1}, {"n1", 0, 2}, {"n2", 0, 2}, {"n3", 0, 0}}, Reach: []string{"analysed", "failed"},
				Desc: "the analysis half below the entry points: lookupAndEscapeTemplate / escape() histories (a failed analysis stays failed, drops the parse tree, and a caller of the failed template is not accepted)"},
		},
		Probes:    []ProbeSpec{},
		Functions: []string{"template.(*Template).Execute, ExecuteTemplate, ExecuteToHTML, ExecuteTemplateToHTML, escape, lookupAndEscapeTemplate", "template.escapeTemplate, (*escaper).escapeTree, computeOutCtx, escapeTemplateBody, escapeList, escapeAction, escapeText, commit", "text/template New / AddParseTree / Lookup (stdlib SSA)", "uncheckedconversions.HTMLFromStringKnownToSatisfyTypeContract"},
		Bounds: map[string]string{
			"quick":    "histories of 2 calls over 6 operations; 10 concrete prefixes; texts T0 0..1, T1 0..2 and (the caller's) T2 0..2 symbolic ASCII bytes; one symbolic run-time-failure flag; whether main / its caller can be contextualized is decided on fresh copies of the set",
			"thorough": "12 prefixes; T0 0..1, T1 0..2, T2 0..2",
		},
		Outside: []string{"text/template's executor is NOT encoded: it is a stub with the contract 'no parse tree => error and nothing written; otherwise arbitrary output, run-time error iff the data value requests it' - that the real executor honours this contract (and that its output is what the tree says) is assumed",
			"histories longer than 2 calls; New / Clone / Parse* / Lookup interleavings; template sets other than main + one caller + one unrelated template; failure causes are those reachable with one text, one action, one text (non-text end context, action in a disallowed position, unsafe URL prefix) - undefined callees and recursive contexts are covered only by the C01/C08 harnesses' rejected paths",
			"unwinding bound: 400 visits of one block per frame"},
		Intrinsics: []string{"(*text/template.Template).Execute environment stub", "(*text/template.Template).Funcs as a no-op", "stateful sync.Mutex", "bytes.Buffer"},
	})

	reg(&Prop{
		ID:    "C06",
		Title: "Execution results depend only on definitions, name and data, not on history - analysis half: each action is rewritten exactly once",
		Harnesses: []HarnessSpec{
			{Pkg: "template", Name: "vHarness_C06_order", Quick: []ParamRange{{"n0", 0, 1}, {"calls", 3, 4}}, Thorough: []ParamRange{{"n0", 0, 3}, {"calls", 1, 4}}, Reach: []string{"text-use", "attr-use"},
				Desc: "3 or 4 calls chosen symbolically among lookupAndEscapeTemplate of six templates (a helper h = T0 {{.}}, two element-content callers, an attribute-value caller, a template that cannot be contextualized, and a failing caller of h that leaves edits pending) with the real commit rewriting the trees: failing templates fail, the others are accepted, and afterwards the pipeline of the action in h and in the copy derived for the attribute context is the original command followed by exactly the sanitizer chain of its context"},
		},
		Probes:    []ProbeSpec{},
		Functions: []string{"template.(*Template).lookupAndEscapeTemplate, escapeTemplate, (*escaper).escapeTree (derived templates, parse.Tree.Copy), computeOutCtx, escapeAction, commit, ensurePipelineContains, newIdentCmd", "template.sanitizerForContext (reference chain for the action's context)", "text/template New / AddParseTree / Lookup (stdlib SSA)"},
		Bounds: map[string]string{
			"quick":    "all sequences of 3 and of 4 calls over the six templates; T0 0..1 symbolic ASCII bytes that stay inside the attribute value",
			"thorough": "sequences of 1..4 calls; T0 0..3",
		},
		Outside: []string{"the bytes written by Execute (text/template's executor is not encoded): the claim is about the rewritten pipelines, from which the written bytes follow only by argument",
			"sets other than one helper shared by a text-context and an attribute-context caller; URL, script and style contexts for the second use; histories longer than 3 calls; repeated Execute calls with data"},
		Intrinsics: []string{"(*text/template.Template).Funcs as a no-op", "stateful sync.Mutex"},
	})

	reg(&Prop{
		ID:    "C08",
		Title: "Template API totality, reduced to the byte-level kernels: no panic, bounded loops",
		Harnesses: []HarnessSpec{
			{Pkg: "template", Name: "vHarness_C08_history", Quick: []ParamRange{{"prefix", 0, 9}, {"n0", 0, 1}, {"n1", 0, 2}, {"n2", 0, 2}, {"n3", 0, 2}}, Thorough: []ParamRange{{"prefix", 0, 11}, {"n0", 0, 1}, {"n1", 0, 2}, {"n2", 0, 2}, {"n3", 0, 2}}, Reach: []string{"analysed", "failed", "caller-analysed", "derived-analysed"},
				Filter: func(p map[string]int) bool { return p["n2"] == 0 || p["n3"] == 0 },
				Desc:   "bounded call histories: two calls chosen symbolically among lookupAndEscapeTemplate(main | incomplete | undefined), escape() and Lookup over a hand-built set with symbolic ASCII texts: every call returns, the name-space mutex is free afterwards (a second Lock on a held mutex is reported as a deadlock), a failed analysis stays failed and drops the parse tree"},
			{Pkg: "template", Name: "vHarness_C08_text", Quick: []ParamRange{{"elem", 0, 8}, {"attr", 0, 1}, {"n", 0, 3}}, Thorough: []ParamRange{{"elem", 0, 8}, {"attr", 0, 3}, {"n", 0, 4}}, Reach: []string{"ran"},
				Filter: func(p map[string]int) bool {
					e := p["elem"]
					return (e == 0 || e == 1 || e == 4 || e == 6 || p["n"] <= 2) && (p["n"] <= 3 || (e == 4 && p["attr"] == 0))
				},
				Desc: "escapeText from an arbitrary context satisfying the data invariant (state and delimiter symbolic) over a symbolic ASCII text: no panic (incl. the 'infinite loop' panic), no index/slice out of range, every loop within the unwinding bound, result in range, error state absorbing"},
			{Pkg: "template", Name: "vHarness_C08_special", Quick: []ParamRange{{"elem", 0, 3}, {"n", 0, 10}}, Thorough: []ParamRange{{"elem", 0, 3}, {"n", 0, 11}}, Reach: []string{"ran"},
				Desc: "longer ASCII texts inside script, style, title and textarea (reaches every \"</name\" end-tag prefix): no panic, bounded loops"},
			{Pkg: "template", Name: "vHarness_C08_sanitizers", Quick: []ParamRange{{"san", 0, 19}, {"n", 0, 2}}, Thorough: []ParamRange{{"san", 0, 19}, {"n", 0, 3}}, Reach: []string{"ran"},
				Desc: "each of the 20 run-time functions on 16 argument kinds (nil, string, the seven safe types, pointers, pointers to pointers, typed nil pointers): no panic"},
		},
		Probes:    []ProbeSpec{},
		Functions: []string{"everything encoded for C01 (escapeText, contextAfterText, the transition functions, indexTagEnd, eat*, isJsTemplateBalanced and helpers)", "the twenty functions of the funcs map", "safehtmlutil.Stringify / Indirect models"},
		Bounds: map[string]string{
			"quick":    "text: every ASCII string of length 0..3 (0..2 for five of nine element names) from every (state, delimiter) pair allowed by the data invariant x 9 element names x 2 attribute names; sanitizers: contents 0..2 bytes",
			"thorough": "text 0..3 (0..4 in the script element) x 9 element names x 4 attribute names; special-element bodies 0..11; contents 0..3; histories with 12 prefixes",
		},
		Outside: []string{"the larger part of C08 as stated: escape()'s node-kind switch ({{break}}/{{continue}} panic), escapeTree on a nil tree, commit, lookupAndEscapeTemplate, Clone, Parse* and every call history - tree- and pointer-structure code under text/template with no symbolic data to quantify over; the check cannot see those panics and does not claim to",
			"unwinding bound: 400 visits of one block per frame, 5,000,000 instructions per path"},
		Intrinsics: []string{"as C01"},
	})
}
