package main

import (
	"encoding/json"
	"fmt"
	"os"
	osexec "os/exec"
	"path/filepath"
	"sort"
	"strings"
	"time"
)

func solverVersion(bin string, arg string) string {
	out, err := osexec.Command(bin, arg).Output()
	if err != nil {
		return bin + ": unavailable"
	}
	return strings.TrimSpace(strings.SplitN(string(out), "\n", 2)[0])
}

func (c *checker) writeEvidence(wall time.Duration, code int) {
	var states, instrs, queries, obligations, discharged, paths, forks, merges, mergeFails, cut, undecided, nodes int
	var solverTime time.Duration
	assume := map[string]bool{}
	type jobSummary struct {
		Harness string         `json:"harness"`
		Params  map[string]int `json:"params"`
		Paths   int            `json:"paths"`
		States  int            `json:"states"`
		Queries int            `json:"queries"`
		WallS   float64        `json:"wall_s"`
	}
	var biggest []jobSummary
	perHarness := map[string]map[string]int{}
	for _, r := range c.results {
		if r == nil {
			continue
		}
		states += r.States
		instrs += r.Instrs
		queries += r.Queries
		obligations += r.Obligations
		discharged += r.Discharged
		paths += r.Paths
		forks += r.Forks
		merges += r.Merges
		mergeFails += r.MergeFails
		cut += r.Cut
		undecided += r.Undecided
		nodes += r.Nodes
		solverTime += r.SolverTime
		for _, a := range r.Assumes {
			assume[a] = true
		}
		biggest = append(biggest, jobSummary{r.Spec.Harness, r.Spec.Params, r.Paths, r.States, r.Queries, r.Wall.Seconds()})
		if perHarness[r.Spec.Harness] == nil {
			perHarness[r.Spec.Harness] = map[string]int{}
		}
		perHarness[r.Spec.Harness]["jobs"]++
		perHarness[r.Spec.Harness]["paths"] += r.Paths
		perHarness[r.Spec.Harness]["obligations"] += r.Obligations
		perHarness[r.Spec.Harness]["discharged"] += r.Discharged
		perHarness[r.Spec.Harness]["queries"] += r.Queries
	}
	sort.Slice(biggest, func(i, j int) bool { return biggest[i].WallS > biggest[j].WallS })
	if len(biggest) > 5 {
		biggest = biggest[:5]
	}
	samples := append([]interface{}{}, c.samples...)
	for _, b := range biggest {
		samples = append(samples, map[string]interface{}{"kind": "job", "harness": b.Harness, "params": b.Params, "paths": b.Paths, "states": b.States, "queries": b.Queries, "wall_s": b.WallS})
	}
	if len(samples) == 0 {
		samples = append(samples, map[string]interface{}{"kind": "none", "note": "no job completed"})
	}
	assumptions := append([]string{}, c.prop.Assumes...)
	for a := range assume {
		assumptions = append(assumptions, a)
	}
	sort.Strings(assumptions)
	for _, in := range c.prop.Intrinsics {
		assumptions = append(assumptions, "intrinsic: "+in)
	}
	for _, cu := range c.prop.Cuts {
		assumptions = append(assumptions, "cut: "+cu)
	}
	hashes := map[string]string{}
	initInstrs := 0
	if c.world != nil {
		hashes = c.world.FileHashes
		initInstrs = c.world.InitInstrs
	}
	if states < 1 {
		states = 1
	}
	if instrs < 1 {
		instrs = 1
	}
	verdict := map[int]string{0: "holds within the bounds", 1: "violation", 2: "inconclusive"}[code]
	ev := map[string]interface{}{
		"property_id": c.prop.ID,
		"tier":        c.tier,
		"seed":        c.seed,
		"level":       "model_checking",
		"wall_s":      wall.Seconds(),
		"violations":  c.violations,
		"assumptions": assumptions,
		"coverage": map[string]interface{}{
			"states":                        states,
			"transitions":                   instrs,
			"traces_validated_against_impl": c.probePairs + c.replayed,
			"samples":                       samples,
			"obligations":                   obligations,
			"discharged":                    discharged,
			"exhaustive":                    false,
			"explanation":                   "bounded symbolic execution of the go/ssa form of the listed functions; every vAssert / panic / bounds obligation decided by z3 (QF_BV) over all inputs of the stated lengths",
			"verdict":                       verdict,
			"jobs":                          c.jobsN,
			"paths_completed":               paths,
			"forks":                         forks,
			"merges":                        merges,
			"shape_splits":                  mergeFails,
			"cut_by_assumption":             cut,
			"undecided":                     undecided,
			"queries":                       queries,
			"solver_time_s":                 solverTime.Seconds(),
			"term_nodes":                    nodes,
			"solver_versions":               []string{c.solver + ": " + solverVersion(c.solver, "--version")},
			"functions_encoded":             c.prop.Functions,
			"source_sha256":                 hashes,
			"package_init_instructions":     initInstrs,
			"bounds":                        c.prop.Bounds[c.tier],
			"outside_bounds":                c.prop.Outside,
			"per_harness":                   perHarness,
			"probe_pairs_agreeing":          c.probePairs,
			"native_replays":                c.replayed,
			"vacuity_witnesses":             c.reachOK,
			"known_findings_hit":            c.knownHits,
			"inconclusive_reasons":          c.reason,
			"load_and_init_s":               c.loadTime.Seconds(),
			"output":                        c.lines,
		},
	}
	data, _ := json.MarshalIndent(ev, "", " ")
	dir := filepath.Join(c.verif, "evidence")
	if d := os.Getenv("VERIF_EVIDENCE_DIR"); d != "" {
		dir = d // runs against seeded / mutated scratch trees keep /verif/evidence untouched
	}
	os.MkdirAll(dir, 0o755)
	if err := os.WriteFile(filepath.Join(dir, c.prop.ID+".json"), data, 0o644); err != nil {
		fmt.Fprintln(os.Stderr, "cannot write evidence:", err)
	}
}
