package template

import (
	"text/template"
	"text/template/parse"
)

// C08 (and the analysis half of C05), bounded call histories over a hand-built set
//
//	main: P ++ T0 {{.}} T1      y: declared, without a parse tree      (zz: not in the set)
//
// Two calls, each chosen symbolically among lookupAndEscapeTemplate("main" | "y" | "zz" | "c"
// with c = x{{template "main"}}T2), escape() on main and Lookup: every call returns (no panic; a call that would block on the
// name-space mutex is reported as a deadlock), leaves the mutex free, and a template whose
// analysis failed keeps failing and has lost its parse tree.
func vHarness_C08_history() {
	p := c01ShapePrefixes[vParam("prefix")]
	s0 := vNondetString("t0", vParam("n0"))
	s1 := vNondetString("t1", vParam("n1"))
	vASCII(s0)
	vASCII(s1)
	action := &parse.ActionNode{NodeType: parse.NodeAction, Pipe: c01DotPipe()}
	mainTree := &parse.Tree{Name: "main", Root: &parse.ListNode{NodeType: parse.NodeList, Nodes: []parse.Node{c01TextNode(p + s0), action, c01TextNode(s1)}}}
	tt := template.New("main")
	if _, err := tt.AddParseTree("main", mainTree); err != nil {
		return
	}
	ns := &nameSpace{set: map[string]*Template{}}
	ns.esc = makeEscaper(ns)
	tm := &Template{text: tt, Tree: mainTree, nameSpace: ns}
	ns.set["main"] = tm
	ns.set["y"] = &Template{text: tt.New("y"), nameSpace: ns}
	// c: a caller of main ( "x" {{template "main" .}} T2 )
	s2 := vNondetString("t2", vParam("n2"))
	vASCII(s2)
	cTree := &parse.Tree{Name: "c", Root: &parse.ListNode{NodeType: parse.NodeList, Nodes: []parse.Node{c01TextNode("x"),
		&parse.TemplateNode{NodeType: parse.NodeTemplate, Name: "main", Pipe: c01DotPipe()}, c01TextNode(s2)}}}
	tc, err := tt.AddParseTree("c", cTree)
	if err != nil {
		return
	}
	tcT := &Template{text: tc, Tree: cTree, nameSpace: ns}
	ns.set["c"] = tcT
	// d: calls main from inside a quoted attribute value ( <p title=" {{template "main" .}} T3 ), so
	// that its analysis creates a derived template
	s3 := vNondetString("t3", vParam("n3"))
	vASCII(s3)
	dTree := &parse.Tree{Name: "d", Root: &parse.ListNode{NodeType: parse.NodeList, Nodes: []parse.Node{c01TextNode(`<p title="`),
		&parse.TemplateNode{NodeType: parse.NodeTemplate, Name: "main", Pipe: c01DotPipe()}, c01TextNode(s3)}}}
	td, err := tt.AddParseTree("d", dTree)
	if err != nil {
		return
	}
	ns.set["d"] = &Template{text: td, Tree: dTree, nameSpace: ns}
	names := [3]string{"main", "y", "zz"}
	failed := false
	for k := 0; k < 2; k++ {
		var op int
		if k == 0 {
			op = vNondetInt("op0", 0, 6)
		} else {
			op = vNondetInt("op1", 0, 6)
		}
		var err error
		switch op {
		case 0, 1, 2:
			var got *Template
			got, err = tm.lookupAndEscapeTemplate(names[op])
			if op == 0 {
				vAssert(err != nil || got == tm, "lookupAndEscapeTemplate returns another template than the one asked for")
				if failed {
					vAssert(err != nil, "a template whose analysis failed is reported as usable by a later call")
				}
				if err != nil {
					failed = true
				}
			} else {
				vAssert(err != nil, "an incomplete or undefined template is reported as usable")
			}
		case 3:
			err = tm.escape()
			if failed {
				vAssert(err != nil, "a template whose analysis failed is reported as usable by a later call")
			}
			if err != nil {
				failed = true
			}
		case 4:
			vAssert(tm.Lookup("main") == tm, "Lookup does not return the template of that name")
		case 6:
			_, err = tm.lookupAndEscapeTemplate("d")
			if err == nil {
				vReach("derived-analysed")
			}
		case 5:
			_, err = tm.lookupAndEscapeTemplate("c")
			if err == nil {
				vReach("caller-analysed")
				vAssert(tm.text.Tree != nil && tm.text.Root != nil, "a template is accepted although it calls a template whose parse tree was cleared by an earlier failed analysis (text/template dereferences the cleared tree and panics)")
			}
			if failed {
				vAssert(err != nil, "a template that calls a template whose analysis failed is reported as usable")
			}
		}
		vAssert(ns.mu.TryLock(), "a call returned with the name-space mutex still held: the next call on the set blocks forever")
		ns.mu.Unlock()
		vAssert(ns.escaped || op == 4, "the set is not frozen after an execution attempt")
		if failed {
			vReach("failed")
			vAssert(tm.Tree == nil && tm.text.Tree == nil, "a template whose analysis failed keeps its parse tree (text/template could still run the un-analysed body)")
		} else if op == 0 || op == 3 {
			vReach("analysed")
		}
	}
}
