package safehtml

import "github.com/google/safehtml/internal/safehtmlutil"

// C13: TrustedResourceURL builders confine dynamic parts to where the format puts them.

func refOriginByte(b byte) bool {
	return refAlpha(b) || refDigit(b) || b == '.' || b == ':' || b == '[' || b == ']' || b == '-'
}

func refFoldEq(s string, lower string) bool {
	if len(s) < len(lower) {
		return false
	}
	ok := true
	for i := 0; i < len(lower); i++ {
		ok = ok && refLowerByte(s[i]) == lower[i]
	}
	return ok
}

// refTRUPrefix: https://<origin>/ | //<origin>/ | /<not / or \> | about:blank#   (ASCII case-insensitive)
func refTRUPrefix(s string) bool {
	if refFoldEq(s, "about:blank#") {
		return true
	}
	if len(s) >= 2 && s[0] == '/' && s[1] != '/' && s[1] != '\\' {
		return true
	}
	rest := s
	if refFoldEq(s, "https:") {
		rest = s[6:]
	}
	if len(rest) < 2 || rest[0] != '/' || rest[1] != '/' {
		return false
	}
	// 1+ origin bytes then '/'
	phase := 0 // 0 expecting origin, 1 matched, 2 failed
	for i := 2; i < len(rest); i++ {
		b := rest[i]
		if phase != 0 {
			continue
		}
		if refOriginByte(b) {
			continue
		}
		if b == '/' && i > 2 {
			phase = 1
		} else {
			phase = 2
		}
	}
	return phase == 1
}

func vHarness_C13_prefix() {
	n := vParam("n")
	f := vNondetString("f", n)
	if vParam("ascii") == 1 {
		vASCII(f)
	}
	if !safehtmlutil.IsSafeTrustedResourceURLPrefix(f) {
		return
	}
	vReach("accepted")
	nonASCII := false
	for i := 0; i < len(f); i++ {
		nonASCII = nonASCII || f[i] >= 0x80
	}
	vAssertKnown(refTRUPrefix(f), "an accepted format/base starts with https://origin/, //origin/, /path-start or about:blank#", "C13-fold-nonascii", nonASCII)
}

var c13Prefixes = []string{"/p/", "//h/", "https://h/", "about:blank#", "/a/../b/"}

func refWordByte(b byte) bool { return refAlpha(b) || refDigit(b) || b == '_' }

func vHarness_C13_format() {
	pi, t, la, lb := vParam("prefix"), vParam("t"), vParam("la"), vParam("lb")
	tail := vNondetString("tail", t)
	vASCII(tail)
	va := vNondetString("va", la)
	vb := vNondetString("vb", lb)
	format := c13Prefixes[pi] + tail
	args := map[string]string{"a": va, "b": vb}
	res, err := TrustedResourceURLFormatFromConstant(stringConstant(format), args)
	// reference: scan for %{word+} markers, substitute
	exp, prov := "", ""
	bad := false
	nmark := 0
	for i := 0; i < len(format); {
		if format[i] == '%' && i+2 < len(format) && format[i+1] == '{' && refWordByte(format[i+2]) {
			j := i + 2
			for j < len(format) && refWordByte(format[j]) {
				j++
			}
			if j < len(format) && format[j] == '}' {
				label := format[i+2 : j]
				nmark++
				val, known := "", false
				if label == "a" {
					val, known = va, true
				} else if label == "b" {
					val, known = vb, true
				}
				if !known || refContainsDotDot(val) {
					bad = true
				} else {
					e := refEncode(val)
					exp += e
					for k := 0; k < len(e); k++ {
						prov += string([]byte{'0' + byte(nmark)})
					}
				}
				i = j + 1
				continue
			}
		}
		exp += format[i : i+1]
		prov += "L"
		i++
	}
	if bad {
		vReach("rejected-argument")
		vAssert(err != nil, "a marker without argument, or an argument containing '..', is an error")
		return
	}
	if err != nil {
		// the property does not require that every well-formed format is accepted (the
		// implementation may refuse more, e.g. '..' assembled from several pieces)
		vReach("refused")
		return
	}
	if nmark > 0 {
		vReach("substituted")
	}
	if nmark > 1 {
		vReach("two-markers")
	}
	out := res.String()
	vAssert(out == exp, "result is the format with every marker replaced by its percent-encoded argument")
	// confinement: no '..' path segment may contain an argument-derived byte
	start := 0
	for i := 0; i <= len(exp); i++ {
		if i < len(exp) && exp[i] != '/' && exp[i] != '?' && exp[i] != '#' {
			continue
		}
		// segment exp[start:i]
		u1 := refDotDotAt(exp, start)
		if u1 > 0 && start+u1 < i {
			u2 := refDotDotAt(exp, start+u1)
			if u2 > 0 && start+u1+u2 == i {
				fromArg, several := false, false
				for k := start; k < i; k++ {
					if prov[k] != 'L' {
						fromArg = true
					}
					if prov[k] != prov[start] {
						several = true
					}
				}
				vAssertKnown(!fromArg, "a '..' path segment of the result contains argument-derived bytes", "C13-dotdot-assembled", several)
			}
		}
		if i < len(exp) && exp[i] != '/' {
			break // query or fragment reached
		}
		start = i + 1
	}
}

func vHarness_C13_append() {
	nb, n := vParam("nb"), vParam("n")
	base := vNondetString("base", nb)
	vASCII(base)
	s := vNondetString("s", n)
	res, err := TrustedResourceURLAppend(TrustedResourceURL{base}, s)
	if err != nil {
		vAssert(res.String() == "", "an error comes with the zero value")
		vAssert(!refTRUPrefix(base), "a base with a safe prefix is accepted")
		return
	}
	vReach("accepted")
	vAssert(refTRUPrefix(base), "an accepted base has one of the four safe prefix forms")
	vAssert(res.String() == base+refEncode(s), "result is the base followed by the percent-encoded string")
}

func vProbe_C13_format(a []string) string {
	res, err := TrustedResourceURLFormatFromConstant(stringConstant(a[0]), map[string]string{"a": a[1], "b": a[2]})
	if err != nil {
		return "err"
	}
	return "ok:" + res.String()
}

func vProbe_C13_append(a []string) string {
	res, err := TrustedResourceURLAppend(TrustedResourceURL{a[0]}, a[1])
	if err != nil {
		return "err"
	}
	return "ok:" + res.String()
}

func vProbe_C13_prefix(a []string) string {
	if safehtmlutil.IsSafeTrustedResourceURLPrefix(a[0]) {
		return "1"
	}
	return "0"
}

func refWithParams(base, k1, v1, k2, v2 string) string {
	url, frag := base, ""
	if i := refIndexByte(base, '#'); i >= 0 {
		url, frag = base[:i], base[i:]
	}
	sep := "?"
	if i := refIndexByte(url, '?'); i >= 0 {
		if i == len(url)-1 {
			sep = ""
		} else {
			sep = "&"
		}
	}
	p1, p2 := "", ""
	if k1 != "" && v1 != "" {
		p1 = refEncode(k1) + "=" + refEncode(v1)
	}
	if k2 != "" && v2 != "" {
		p2 = refEncode(k2) + "=" + refEncode(v2)
	}
	switch {
	case p1 == "" && p2 == "":
		return base
	case p1 == "":
		return url + sep + p2 + frag
	case p2 == "":
		return url + sep + p1 + frag
	case p2 < p1:
		return url + sep + p2 + "&" + p1 + frag
	}
	return url + sep + p1 + "&" + p2 + frag
}

func vHarness_C13_params() {
	nb, nk, nv := vParam("nb"), vParam("nk"), vParam("nv")
	base := vNondetString("base", nb)
	vASCII(base)
	k1, v1 := vNondetString("k1", nk), vNondetString("v1", nv)
	k2, v2 := vNondetString("k2", nk), vNondetString("v2", nv)
	vAssume(k1 != k2 || nk == 0)
	m1 := map[string]string{}
	m1[k1] = v1
	m1[k2] = v2
	m2 := map[string]string{}
	m2[k2] = v2
	m2[k1] = v1
	if nk == 0 {
		// both keys are empty: one entry; whichever value it holds is skipped
		vAssert(TrustedResourceURLWithParams(TrustedResourceURL{base}, m1).String() == base, "entries with an empty key are skipped")
		return
	}
	r1 := TrustedResourceURLWithParams(TrustedResourceURL{base}, m1).String()
	r2 := TrustedResourceURLWithParams(TrustedResourceURL{base}, m2).String()
	vReach("ran")
	vAssert(r1 == r2, "the result does not depend on map iteration order")
	vAssert(r1 == refWithParams(base, k1, v1, k2, v2), "only the query component changes: sorted percent-encoded pairs are added before the preserved fragment")
}

func vProbe_C13_params(a []string) string {
	m := map[string]string{a[1]: a[2]}
	return TrustedResourceURLWithParams(TrustedResourceURL{a[0]}, m).String()
}
