#!/bin/bash
# usage: tools/seed_recheck.sh <seed dir name> [check id]   re-runs the current check (default: the seed's property) against a
# scratch worktree of /repo's HEAD with seeded/<name>/patch.diff (or patch_rebased_*.diff) applied and records the result
# in seeded/<name>/meta.json under "recheck".
sid=$1; dir=/verif/seeded/$sid
prop=${2:-$(python3 -c "import json;print(json.load(open('$dir/meta.json'))['property'])")}
patch=$(ls $dir/patch_rebased_*.diff 2>/dev/null | tail -1); [ -n "$patch" ] || patch=$dir/patch.diff
t=${TRY_SCRATCH:-/tmp/tryrepo}
[ -d $t ] || git -C /repo worktree add -q --detach $t HEAD
head=$(git -C /repo rev-parse --short HEAD)
git -C $t checkout -q --detach $head && git -C $t checkout -q -- . && git -C $t clean -fdq
if ! git -C $t apply $patch 2>/dev/null; then
  echo "$sid: patch does not apply to $head"; code=-1; first="patch does not apply to HEAD $head (the lines it edits were changed by a later fix: commit)"; detail=""
else
  cd /verif
  out=$(VERIF_REPO=$t VERIF_EVIDENCE_DIR=/tmp/try_evidence timeout 3600 ./checks/run.sh $prop quick 2>&1); code=$?
  first=$(echo "$out" | grep -E "^(VIOLATION|INCONCLUSIVE)" | head -1 | cut -c1-200)
  detail=$(echo "$out" | grep -E "^  harness" | head -1 | cut -c1-400)
  git -C $t checkout -q -- . && git -C $t clean -fdq
fi
echo "$sid: recheck $prop exit=$code $detail" | cut -c1-300
python3 - "$dir" "$prop" "$code" "$first" "$detail" "$head" "$(basename $patch)" <<'PY'
import json,sys
d,prop,code,first,detail,head,patch=sys.argv[1:]
m=json.load(open(d+'/meta.json'))
rc=m.setdefault('recheck',{})
rc[prop]={"repo_head":head,"patch":patch,"tier":"quick","exit":int(code),"detected":int(code)==1,"first_line":first,"detail":detail}
json.dump(m,open(d+'/meta.json','w'),indent=1)
PY
