package template

import (
	"bytes"
	"errors"
	"text/template"
	"text/template/parse"

	"github.com/google/safehtml"
)

// C05: a template whose contextual analysis fails never produces output, and the failure is
// permanent. Bounded call histories over a hand-built set
//
//	main: P ++ T0 {{.M}} T1      c: x {{template "main" .}} T2      ok: hi
//
// with symbolic ASCII texts. Two calls are chosen symbolically among Execute,
// ExecuteTemplate, ExecuteToHTML, ExecuteTemplateToHTML on main, ExecuteTemplate on its caller
// c and on the unrelated ok. The real safehtml/template entry points, escape(),
// lookupAndEscapeTemplate and the escaper run in the engine; text/template's executor is an
// environment stub (no tree => error, nothing written; otherwise arbitrary output and a
// run-time error iff the data value says so).

type vExecData struct{ Fail bool }

func (d vExecData) M() (string, error) {
	if d.Fail {
		return "", errors.New("run-time failure requested by the harness")
	}
	return "m", nil
}

type c05Set struct {
	ns *nameSpace
	tm *Template
}

func c05Build(p, s0, s1, s2 string) *c05Set {
	field := &parse.PipeNode{NodeType: parse.NodePipe, Cmds: []*parse.CommandNode{{NodeType: parse.NodeCommand, Args: []parse.Node{&parse.FieldNode{NodeType: parse.NodeField, Ident: []string{"M"}}}}}}
	action := &parse.ActionNode{NodeType: parse.NodeAction, Pipe: field}
	mainTree := &parse.Tree{Name: "main", Root: &parse.ListNode{NodeType: parse.NodeList, Nodes: []parse.Node{c01TextNode(p + s0), action, c01TextNode(s1)}}}
	cTree := &parse.Tree{Name: "c", Root: &parse.ListNode{NodeType: parse.NodeList, Nodes: []parse.Node{c01TextNode("x"),
		&parse.TemplateNode{NodeType: parse.NodeTemplate, Name: "main", Pipe: c01DotPipe()}, c01TextNode(s2)}}}
	okTree := &parse.Tree{Name: "ok", Root: &parse.ListNode{NodeType: parse.NodeList, Nodes: []parse.Node{c01TextNode("hi")}}}
	tt := template.New("main")
	if _, err := tt.AddParseTree("main", mainTree); err != nil {
		return nil
	}
	tc, err1 := tt.AddParseTree("c", cTree)
	tok, err2 := tt.AddParseTree("ok", okTree)
	if err1 != nil || err2 != nil {
		return nil
	}
	ns := &nameSpace{set: map[string]*Template{}}
	ns.esc = makeEscaper(ns)
	tm := &Template{text: tt, Tree: mainTree, nameSpace: ns}
	ns.set["main"] = tm
	ns.set["c"] = &Template{text: tc, Tree: cTree, nameSpace: ns}
	ns.set["ok"] = &Template{text: tok, Tree: okTree, nameSpace: ns}
	return &c05Set{ns: ns, tm: tm}
}

func vHarness_C05_sticky() {
	p := c01ShapePrefixes[vParam("prefix")]
	s0 := vNondetString("t0", vParam("n0"))
	s1 := vNondetString("t1", vParam("n1"))
	s2 := vNondetString("t2", vParam("n2"))
	vASCII(s0)
	vASCII(s1)
	vASCII(s2)
	// reference: whether main, and whether its caller c, can be contextualized at all - decided on
	// fresh copies of the set, each analysed first and on its own
	ref := c05Build(p, s0, s1, s2)
	refC := c05Build(p, s0, s1, s2)
	set := c05Build(p, s0, s1, s2)
	if ref == nil || refC == nil || set == nil {
		return
	}
	_, refErr := ref.tm.lookupAndEscapeTemplate("main")
	_, refCErr := refC.tm.lookupAndEscapeTemplate("c")
	mainBad, cBad := refErr != nil, refCErr != nil
	ns, tm := set.ns, set.tm
	data := vExecData{Fail: vNondetBool("fail")}
	sticky := false
	for k := 0; k < 2; k++ {
		var op int
		if k == 0 {
			op = vNondetInt("op0", 0, 5)
		} else {
			op = vNondetInt("op1", 0, 5)
		}
		var buf bytes.Buffer
		var err error
		var h safehtml.HTML
		toHTML, target := false, 0
		switch op {
		case 0:
			err = tm.Execute(&buf, data)
		case 1:
			err = tm.ExecuteTemplate(&buf, "main", data)
		case 2:
			h, err = tm.ExecuteToHTML(data)
			toHTML = true
		case 3:
			h, err = tm.ExecuteTemplateToHTML("main", data)
			toHTML = true
		case 4:
			err = tm.ExecuteTemplate(&buf, "c", data)
			target = 1
		case 5:
			err = tm.ExecuteTemplate(&buf, "ok", data)
			target = 2
		}
		if toHTML && err != nil {
			vReach("tohtml-error")
			vAssert(h.String() == "", "ExecuteToHTML / ExecuteTemplateToHTML return a non-zero HTML together with an error")
		}
		if (target == 0 && mainBad) || (target == 1 && cBad) {
			// whatever was executed before: a template that cannot be contextualized fails and writes nothing
			vReach("uncontextualizable")
			vAssert(err != nil, "a template whose contextual analysis fails (on a fresh copy of the set) is executed")
			vAssert(buf.Len() == 0 && h.String() == "", "a call on a template whose contextual analysis fails wrote output")
		}
		if sticky && target == 0 {
			vAssert(err != nil, "a template whose analysis failed is executed by a later call")
			vAssert(buf.Len() == 0 && h.String() == "", "a call on a template whose analysis failed wrote output")
		}
		if target == 0 && tm.escapeErr != nil && tm.escapeErr != errEscapeOK {
			vReach("analysis-failed")
			vAssert(err != nil, "a failed analysis is not reported by the call that ran it")
			vAssert(buf.Len() == 0 && h.String() == "", "the call whose analysis failed wrote output")
			vAssert(tm.Tree == nil && tm.text.Tree == nil, "a template whose analysis failed keeps its parse tree")
			sticky = true
		}
		if target == 0 && err == nil {
			vReach("executed")
		}
		if target == 1 && err == nil {
			vReach("caller-executed")
		}
		vAssert(ns.escaped, "the set is not frozen after an execution attempt")
	}
}
