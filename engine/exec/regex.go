package exec

import (
	"regexp/syntax"
	"unicode"

	"symgo/smt"
)

type compiledRx struct {
	Pattern string
	Prog    *syntax.Prog
	NumCap  int
}

func (w *World) compileRx(pattern string) (*compiledRx, error) {
	w.regexMu.Lock()
	defer w.regexMu.Unlock()
	if r, ok := w.regexCache[pattern]; ok {
		return r, nil
	}
	re, err := syntax.Parse(pattern, syntax.Perl)
	if err != nil {
		return nil, err
	}
	ncap := re.MaxCap()
	re = re.Simplify()
	prog, err := syntax.Compile(re)
	if err != nil {
		return nil, err
	}
	r := &compiledRx{Pattern: pattern, Prog: prog, NumCap: ncap}
	w.regexCache[pattern] = r
	return r, nil
}

// runeMatch is the condition under which instruction i accepts rune r (32-bit term).
func (x *Exec) runeMatch(i *syntax.Inst, r *smt.Term) *smt.Term {
	c := x.Ctx
	k := func(v rune) *smt.Term { return smt.Const(32, uint64(uint32(v))) }
	switch i.Op {
	case syntax.InstRuneAny:
		return smt.True
	case syntax.InstRuneAnyNotNL:
		return c.Ne(r, k('\n'))
	case syntax.InstRune1:
		if syntax.Flags(i.Arg)&syntax.FoldCase != 0 {
			return x.foldMatch(i.Rune[0], r)
		}
		return c.Eq(r, k(i.Rune[0]))
	case syntax.InstRune:
		if len(i.Rune) == 1 {
			if syntax.Flags(i.Arg)&syntax.FoldCase != 0 {
				return x.foldMatch(i.Rune[0], r)
			}
			return c.Eq(r, k(i.Rune[0]))
		}
		res := smt.False
		for j := 0; j+1 < len(i.Rune); j += 2 {
			lo, hi := i.Rune[j], i.Rune[j+1]
			if lo == hi {
				res = c.Or(res, c.Eq(r, k(lo)))
			} else {
				res = c.Or(res, c.And(c.Uge(r, k(lo)), c.Ule(r, k(hi))))
			}
		}
		return res
	}
	unsupported("regexp instruction %v as rune matcher", i.Op)
	return nil
}

func (x *Exec) foldMatch(r0 rune, r *smt.Term) *smt.Term {
	c := x.Ctx
	res := c.Eq(r, smt.Const(32, uint64(uint32(r0))))
	for f := unicode.SimpleFold(r0); f != r0; f = unicode.SimpleFold(f) {
		res = c.Or(res, c.Eq(r, smt.Const(32, uint64(uint32(f)))))
	}
	return res
}

func (x *Exec) isWordByte(b *smt.Term) *smt.Term {
	c := x.Ctx
	return c.OrN(x.inRange(b, 'a', 'z'), x.inRange(b, 'A', 'Z'), x.inRange(b, '0', '9'), c.Eq(b, smt.Byte('_')))
}

// emptyCond is the condition under which the empty-width assertion holds at byte offset pos.
func (x *Exec) emptyCond(op syntax.EmptyOp, s Str, pos int) *smt.Term {
	c := x.Ctx
	res := smt.True
	n := len(s.B)
	if op&syntax.EmptyBeginText != 0 {
		res = c.And(res, smt.Bool(pos == 0))
	}
	if op&syntax.EmptyEndText != 0 {
		res = c.And(res, smt.Bool(pos == n))
	}
	if op&syntax.EmptyBeginLine != 0 {
		if pos != 0 {
			res = c.And(res, c.Eq(s.B[pos-1], smt.Byte('\n')))
		}
	}
	if op&syntax.EmptyEndLine != 0 {
		if pos != n {
			res = c.And(res, c.Eq(s.B[pos], smt.Byte('\n')))
		}
	}
	if op&(syntax.EmptyWordBoundary|syntax.EmptyNoWordBoundary) != 0 {
		before, after := smt.False, smt.False
		if pos > 0 {
			before = x.isWordByte(s.B[pos-1])
		}
		if pos < n {
			after = x.isWordByte(s.B[pos])
		}
		boundary := c.Ne(before, after)
		if op&syntax.EmptyWordBoundary != 0 {
			res = c.And(res, boundary)
		}
		if op&syntax.EmptyNoWordBoundary != 0 {
			res = c.And(res, c.Not(boundary))
		}
	}
	return res
}

func (x *Exec) decodings(st *State, s Str, pos int, ascii bool) []Decoded {
	if s.R != nil {
		for i, off := range s.R.Off[:len(s.R.Runes)] {
			if off == pos {
				return []Decoded{{Cond: smt.True, Rune: s.R.Runes[i], Width: s.R.Off[i+1] - off}}
			}
		}
		return nil // not a rune boundary
	}
	if ascii {
		return []Decoded{{Cond: smt.True, Rune: x.Ctx.Zext(s.B[pos], 32), Width: 1}}
	}
	return x.decodeAt(st, s, pos)
}

// rxMatches returns the condition under which the pattern matches somewhere in s
// (the semantics of MatchString): a symbolic NFA simulation over byte offsets.
func (x *Exec) rxMatches(st *State, rx *compiledRx, s Str) *smt.Term {
	c := x.Ctx
	prog := rx.Prog
	n := len(s.B)
	ascii := x.allASCII(st, s)
	active := make([]map[uint32]*smt.Term, n+1)
	for i := range active {
		active[i] = map[uint32]*smt.Term{}
	}
	matched := smt.False
	var add func(pos int, pc uint32, cond *smt.Term, stack map[uint32]bool)
	add = func(pos int, pc uint32, cond *smt.Term, stack map[uint32]bool) {
		if cond == smt.False || stack[pc] {
			return
		}
		i := &prog.Inst[pc]
		switch i.Op {
		case syntax.InstFail:
			return
		case syntax.InstMatch:
			matched = c.Or(matched, cond)
			return
		case syntax.InstRune, syntax.InstRune1, syntax.InstRuneAny, syntax.InstRuneAnyNotNL:
			if old, ok := active[pos][pc]; ok {
				active[pos][pc] = c.Or(old, cond)
			} else {
				active[pos][pc] = cond
			}
			return
		}
		stack[pc] = true
		switch i.Op {
		case syntax.InstAlt, syntax.InstAltMatch:
			add(pos, i.Out, cond, stack)
			add(pos, i.Arg, cond, stack)
		case syntax.InstNop, syntax.InstCapture:
			add(pos, i.Out, cond, stack)
		case syntax.InstEmptyWidth:
			add(pos, i.Out, c.And(cond, x.emptyCond(syntax.EmptyOp(i.Arg), s, pos)), stack)
		default:
			unsupported("regexp instruction %v", i.Op)
		}
		delete(stack, pc)
	}
	for pos := 0; pos <= n; pos++ {
		// a match may start at every offset that is a rune boundary; starting inside a
		// multi-byte rune is impossible for the real matcher, so the start condition is
		// "pos is a boundary", tracked below.
		_ = pos
	}
	// boundary[pos]: offset pos is the start of a rune in the decoding of s
	boundary := make([]*smt.Term, n+2)
	for i := range boundary {
		boundary[i] = smt.False
	}
	boundary[0] = smt.True
	for pos := 0; pos <= n; pos++ {
		if boundary[pos] != smt.False {
			add(pos, uint32(prog.Start), boundary[pos], map[uint32]bool{})
		}
		if pos == n {
			break
		}
		ds := x.decodings(st, s, pos, ascii)
		for _, d := range ds {
			if pos+d.Width <= n {
				boundary[pos+d.Width] = c.Or(boundary[pos+d.Width], c.And(boundary[pos], d.Cond))
			}
		}
		for pc, cond := range active[pos] {
			i := &prog.Inst[pc]
			for _, d := range ds {
				nc := c.AndN(cond, d.Cond, x.runeMatch(i, d.Rune))
				add(pos+d.Width, i.Out, nc, map[uint32]bool{})
			}
		}
	}
	return matched
}

// rxResult is one guarded result of a leftmost-first search.
type rxResult struct {
	Cond *smt.Term
	Caps []int // byte offsets, -1 = unset; nil = no match
}

// box is a cheap over-approximation of a conjunction of constraints: per input byte a
// set of allowed values, plus a flag for constraints that are not unary.
type box struct {
	sets   map[int]smt.Set256
	others bool
}

func (b box) clone() box {
	n := box{sets: make(map[int]smt.Set256, len(b.sets)+1), others: b.others}
	for k, v := range b.sets {
		n.sets[k] = v
	}
	return n
}

// add intersects the box with cond; it returns false if the box became empty.
func (b *box) add(c *smt.Ctx, cond *smt.Term) bool {
	if cond.IsConst() {
		return cond.Val == 1
	}
	if cond.Op == smt.OpAnd {
		return b.add(c, cond.A[0]) && b.add(c, cond.A[1])
	}
	if v, set, ok := c.Table(cond); ok {
		cur, has := b.sets[v]
		if !has {
			cur = smt.FullSet
		}
		cur = cur.And(set)
		b.sets[v] = cur
		return !cur.Empty()
	}
	b.others = true
	return true
}

// within reports whether b is contained in a (both without non-unary parts).
func (b box) within(a box) bool {
	if a.others {
		return false
	}
	for v, as := range a.sets {
		bs, has := b.sets[v]
		if !has {
			bs = smt.FullSet
		}
		if !bs.SubsetOf(as) {
			return false
		}
	}
	return true
}

// rxFind performs a leftmost-first search (Go regexp semantics) starting the scan at
// byte offset from. Results are mutually exclusive; the last one (Caps == nil) is
// "no match". Infeasible results may be included (the caller's fork prunes them);
// threads are pruned with the box domain and, when constraints over several bytes are
// involved (multi-byte UTF-8), with the solver.
func (x *Exec) rxFind(st *State, rx *compiledRx, s Str, from int) []rxResult {
	c := x.Ctx
	prog := rx.Prog
	n := len(s.B)
	ascii := x.allASCII(st, s)
	ncap := 2 * (rx.NumCap + 1)
	var results []rxResult
	var matched []box
	notEarlier := smt.True
	budget := 400000
	boundary := make([]*smt.Term, n+2)
	for i := range boundary {
		boundary[i] = smt.False
	}
	boundary[from] = smt.True // callers pass offsets that are rune boundaries
	for pos := from; pos < n; pos++ {
		if boundary[pos] == smt.False {
			continue
		}
		for _, d := range x.decodings(st, s, pos, ascii) {
			if pos+d.Width <= n {
				boundary[pos+d.Width] = c.Or(boundary[pos+d.Width], c.And(boundary[pos], d.Cond))
			}
		}
	}
	base := box{sets: map[int]smt.Set256{}}
	for _, p := range st.PC {
		if v, set, ok := c.Table(p); ok {
			cur, has := base.sets[v]
			if !has {
				cur = smt.FullSet
			}
			base.sets[v] = cur.And(set)
		}
	}
	// alive decides whether a thread with condition cond (box bx) can still matter.
	alive := func(cond *smt.Term, bx box) bool {
		if cond == smt.False {
			return false
		}
		for _, m := range matched {
			if bx.within(m) {
				return false // an earlier thread matches whenever this one would
			}
		}
		return true
	}
	var dfs func(pc uint32, pos int, caps []int, cond *smt.Term, bx box, onPath map[[2]int]bool)
	dfs = func(pc uint32, pos int, caps []int, cond *smt.Term, bx box, onPath map[[2]int]bool) {
		budget--
		if budget < 0 {
			unsupported("regexp search budget exhausted for %q", rx.Pattern)
		}
		key := [2]int{int(pc), pos}
		if onPath[key] {
			return
		}
		i := &prog.Inst[pc]
		switch i.Op {
		case syntax.InstFail:
			return
		case syntax.InstMatch:
			full := c.And(cond, notEarlier)
			if full == smt.False {
				return
			}
			mc := append([]int(nil), caps...)
			mc[1] = pos
			results = append(results, rxResult{Cond: full, Caps: mc})
			notEarlier = c.And(notEarlier, c.Not(cond))
			matched = append(matched, bx)
			return
		case syntax.InstRune, syntax.InstRune1, syntax.InstRuneAny, syntax.InstRuneAnyNotNL:
			if pos >= n {
				return
			}
			for _, d := range x.decodings(st, s, pos, ascii) {
				if pos+d.Width > n {
					continue
				}
				step := c.And(d.Cond, x.runeMatch(i, d.Rune))
				nb := bx.clone()
				if !nb.add(c, step) {
					continue
				}
				nc := c.And(cond, step)
				if !alive(nc, nb) {
					continue
				}
				dfs(i.Out, pos+d.Width, caps, nc, nb, map[[2]int]bool{})
			}
			return
		}
		onPath[key] = true
		switch i.Op {
		case syntax.InstAlt, syntax.InstAltMatch:
			dfs(i.Out, pos, caps, cond, bx, onPath)
			dfs(i.Arg, pos, caps, cond, bx, onPath)
		case syntax.InstNop:
			dfs(i.Out, pos, caps, cond, bx, onPath)
		case syntax.InstCapture:
			if int(i.Arg) < len(caps) {
				nc := append([]int(nil), caps...)
				nc[i.Arg] = pos
				dfs(i.Out, pos, nc, cond, bx, onPath)
			} else {
				dfs(i.Out, pos, caps, cond, bx, onPath)
			}
		case syntax.InstEmptyWidth:
			e := x.emptyCond(syntax.EmptyOp(i.Arg), s, pos)
			nb := bx.clone()
			if nb.add(c, e) {
				if nc := c.And(cond, e); alive(nc, nb) {
					dfs(i.Out, pos, caps, nc, nb, onPath)
				}
			}
		default:
			unsupported("regexp instruction %v", i.Op)
		}
		delete(onPath, key)
	}
	anchored := prog.StartCond()&syntax.EmptyBeginText != 0
	for start := from; start <= n; start++ {
		if anchored && start > 0 {
			break
		}
		if boundary[start] == smt.False {
			continue
		}
		sb := base.clone()
		if !sb.add(c, boundary[start]) || !alive(boundary[start], sb) {
			continue
		}
		caps := make([]int, ncap)
		for i := range caps {
			caps[i] = -1
		}
		caps[0] = start
		dfs(uint32(prog.Start), start, caps, boundary[start], sb, map[[2]int]bool{})
		if notEarlier == smt.False {
			break
		}
	}
	if notEarlier != smt.False {
		results = append(results, rxResult{Cond: notEarlier, Caps: nil})
	}
	return results
}
