package template

import (
	"html"

	"github.com/google/safehtml/internal/safehtmlutil"
)

// C14: data interpolated after a static URL prefix stays inside its URL component.

type c14Ctx struct {
	elem, attr, rel string
	tru             bool
}

var c14Contexts = []c14Ctx{
	{"a", "href", "", false},
	{"img", "src", "", false},
	{"form", "action", "", false},
	{"script", "src", "", true},
	{"link", "href", " stylesheet ", true},
	{"link", "href", " icon ", false},
}

// refNormalize: the documented normalisation: unreserved and reserved URL bytes kept,
// valid %hh kept, everything else (quotes, angle brackets, space, controls, backslash,
// non-ASCII bytes, a '%' that starts no escape) percent-encoded.
func refNormalize(d string) string {
	out := ""
	for i := 0; i < len(d); i++ {
		b := d[i]
		keep := refUnreserved(b)
		switch b {
		case '!', '#', '$', '&', '*', '+', ',', '/', ':', ';', '=', '?', '@', '[', ']':
			keep = true
		}
		if b == '%' && i+2 < len(d) && refHexDigit(d[i+1]) && refHexDigit(d[i+2]) {
			keep = true
		}
		if keep {
			out += string([]byte{b})
		} else {
			out += string([]byte{'%', refHex[b>>4], refHex[b&15]})
		}
	}
	return out
}

func refHTMLEscapeASCII(s string) string {
	// HTML escaping of a string known to be plain ASCII without controls
	out := ""
	for i := 0; i < len(s); i++ {
		switch s[i] {
		case '&':
			out += "&amp;"
		case '<':
			out += "&lt;"
		case '>':
			out += "&gt;"
		case '"':
			out += "&#34;"
		case '\'':
			out += "&#39;"
		default:
			out += s[i : i+1]
		}
	}
	return out
}

// vOneAmp restricts p to the strings with no '&' (amp < 0) or with exactly one '&', at
// index amp: an exhaustive case split over the prefixes with at most one character reference.
func vOneAmp(p string, amp int) {
	if amp == -2 {
		// the prefix is one complete character reference "&X;" with X alphanumeric or '#'
		vAssume(len(p) >= 3)
		vAssume(p[0] == '&' && p[len(p)-1] == ';')
		for i := 1; i < len(p)-1; i++ {
			vAssume(refAlpha(p[i]) || refDigit(p[i]) || p[i] == '#')
		}
		return
	}
	if amp == -4 || amp == -5 {
		// a decimal character reference "&#dd;" with lead (amp == -4) symbolic bytes before it,
		// or trail (amp == -5) symbolic bytes after it; the other bytes are not '&'
		k := vParam("k")
		lo, hi := k, len(p)
		if amp == -5 {
			lo, hi = 0, len(p)-k
		}
		vAssume(hi-lo >= 4)
		vAssume(p[lo] == '&' && p[lo+1] == '#' && p[hi-1] == ';')
		for i := 0; i < len(p); i++ {
			if i >= lo+2 && i < hi-1 {
				vAssume(refDigit(p[i]))
			} else if i < lo || i >= hi {
				vAssume(p[i] != '&')
			}
		}
		return
	}
	if amp == -3 {
		// the prefix is one decimal character reference "&#ddd;"
		vAssume(len(p) >= 4)
		vAssume(p[0] == '&' && p[1] == '#' && p[len(p)-1] == ';')
		for i := 2; i < len(p)-1; i++ {
			vAssume(refDigit(p[i]))
		}
		return
	}
	for i := 0; i < len(p); i++ {
		if i == amp {
			vAssume(p[i] == '&')
		} else {
			vAssume(p[i] != '&')
		}
	}
}

func vHarness_C14_prefix() {
	ci, np := vParam("ctx"), vParam("np")
	cc := c14Contexts[ci]
	p := vNondetString("p", np)
	vASCII(p)
	vOneAmp(p, vParam("amp"))
	c := vAttrContext(cc.elem, cc.attr, p, delimDoubleQuote, cc.rel)
	_, err := sanitizerForContext(c)
	if err != nil {
		vReach("rejected")
		return
	}
	vReach("accepted")
	q := html.UnescapeString(p) // what the browser sees (Go's entity table is the WHATWG table)
	vAssert(!refHasWSCtl(p), "an accepted prefix contains whitespace or a control character")
	vAssert(!refHasWSCtl(q), "an accepted prefix decodes to text with whitespace or a control character")
	vAssert(!refEndsWithPartialCharRef(p), "an accepted prefix ends in a partial character reference")
	vAssert(!refEndsWithPartialPercent(q), "an accepted prefix ends (after decoding) in a partial percent escape")
	phase, _ := refSchemeScan(q)
	if cc.tru {
		vAssert(phase != refPhaseJS && phase != refPhaseLeading && phase != refPhaseInScheme, "an accepted TrustedResourceURL prefix could still be completed into a scheme")
	} else {
		vAssert(phase == refPhaseNoScheme || phase == refPhaseOther, "an accepted prefix could still be completed into a scheme, or has the javascript scheme")
		vAssert(refHasAny(q, '/', '?', '#') || phase == refPhaseOther, "an accepted prefix has neither a complete scheme nor one of / ? #")
	}
}

func vHarness_C14_data() {
	ci, np, nd := vParam("ctx"), vParam("np"), vParam("nd")
	cc := c14Contexts[ci]
	p := vNondetString("p", np)
	vASCII(p)
	vOneAmp(p, vParam("amp"))
	d := vNondetString("d", nd)
	c := vAttrContext(cc.elem, cc.attr, p, delimDoubleQuote, cc.rel)
	chain, err := sanitizerForContext(c)
	if err != nil {
		return
	}
	q := html.UnescapeString(p)
	out, derr := vApplyChain(chain, d)
	inQuery := refHasAny(q, '?', '#', '#')
	rawQuery := refHasAny(p, '?', '#', '#')
	switch {
	case cc.tru:
		vReach("tru")
		if refContainsDotDot(d) {
			vAssert(derr != nil, "data containing a '..' unit after a TrustedResourceURL prefix is an error")
			return
		}
		vAssert(derr == nil && out == refEncode(d), "after a TrustedResourceURL prefix data is fully percent-encoded")
		// no '..' segment of q ++ out may contain a data-derived byte
		full := q + out
		start := 0
		for i := 0; i <= len(full); i++ {
			if i < len(full) && full[i] != '/' && full[i] != '?' && full[i] != '#' {
				continue
			}
			u1 := refDotDotAt(full, start)
			if u1 > 0 && start+u1 < i {
				u2 := refDotDotAt(full, start+u1)
				if u2 > 0 && start+u1+u2 == i && i > len(q) {
					vAssertKnown(false, "a '..' path segment after a TrustedResourceURL prefix contains data-derived bytes", "C14-dotdot-prefix-tail", start < len(q))
				}
			}
			if i < len(full) && full[i] != '/' {
				break
			}
			start = i + 1
		}
	case inQuery:
		vReach("query")
		vAssert(derr == nil, "data after a query/fragment prefix is never an error")
		vAssertKnown(out == refEncode(d), "data in the query or fragment part is fully percent-encoded", "C14-raw-prefix-decision", rawQuery != inQuery)
	default:
		vReach("path")
		vAssert(derr == nil, "data after a path prefix is never an error")
		vAssertKnown(out == refHTMLEscapeASCII(refNormalize(d)), "data elsewhere is normalised (and HTML-escaped), valid %XX escapes are kept", "C14-raw-prefix-decision", rawQuery != inQuery)
	}
}

func vHarness_C14_idempotent() {
	n := vParam("n")
	d := vNondetString("d", n)
	once := safehtmlutil.NormalizeURL(d)
	vReach("ran")
	vAssert(safehtmlutil.NormalizeURL(once) == once, "normalising twice equals normalising once")
	vAssert(once == refNormalize(d), "NormalizeURL equals the reference normalisation")
	vAssert(safehtmlutil.QueryEscapeURL(d) == refEncode(d), "QueryEscapeURL equals the reference encoder")
}

func vProbe_C14_chain(a []string) string {
	cc := c14Contexts[int(a[0][0])%len(c14Contexts)]
	chain, err := sanitizerForContext(vAttrContext(cc.elem, cc.attr, a[1], delimDoubleQuote, cc.rel))
	if err != nil {
		return "rejected"
	}
	out, derr := vApplyChain(chain, a[2])
	if derr != nil {
		return "dataerr"
	}
	return "ok:" + out
}

func vProbe_C14_unescape(a []string) string { return html.UnescapeString(a[0]) }
