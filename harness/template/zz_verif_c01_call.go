package template

import (
	"text/template"
	"text/template/parse"
)

// C01, composition over template calls: the real escapeTree / computeOutCtx /
// escapeTemplateBody (derived templates per start context, the fixed-point rule for
// recursive calls) over the template set
//
//	main: P ++ T0 {{template "y" .}} T3 {{.}} T4
//	y:    T1 {{if .}}{{template "y" .}}{{end}} T2 M T5   (rec = 1; without the if for rec = 0; M a concrete infix)
//
// The output for recursion depths 0, 1 and 2 is assembled by walking the parse trees the
// escaper produced (derived templates, rewritten texts, renamed callees).

type c01Set struct {
	e      *escaper
	set    map[string]*parse.Tree
	action *parse.ActionNode
}

func (cs *c01Set) tree(name string) *parse.Tree {
	if t, ok := cs.e.derived[name]; ok {
		return t.Tree
	}
	return cs.set[name]
}

// expand returns what executing the list writes when every {{if}} is taken while depth > 0;
// every action is replaced by its own recorded sanitizer chain applied to val. ok is false if
// a sanitizer refuses the value (nothing is written then).
func (cs *c01Set) expand(l *parse.ListNode, depth int, val string) (out string, ok bool) {
	ok = true
	if l == nil {
		return
	}
	for _, n := range l.Nodes {
		switch n := n.(type) {
		case *parse.TextNode:
			out += c01Rewritten(cs.e, n)
		case *parse.ActionNode:
			w, err := vApplyChain(cs.e.actionNodeEdits[n], val)
			if err != nil {
				return out, false
			}
			out += w
		case *parse.IfNode:
			if depth > 0 {
				w, k := cs.expand(n.List, depth, val)
				out += w
				if !k {
					return out, false
				}
			}
		case *parse.TemplateNode:
			callee := n.Name
			if r, found := cs.e.templateNodeEdits[n]; found {
				callee = r
			}
			d := depth
			if callee != "main" && d > 0 && l != cs.set["main"].Root {
				d-- // a recursive call
			}
			if t := cs.tree(callee); t != nil {
				w, k := cs.expand(t.Root, d, val)
				out += w
				if !k {
					return out, false
				}
			}
		}
	}
	return
}

var c01CallPrefixes = []string{"", "<p>", `<a title='`, `<a title="`, "<p ", `<a href="`, "<title>"}

func vHarness_C01_call() {
	p := c01CallPrefixes[vParam("prefix")]
	s0 := vNondetString("t0", vParam("n0"))
	s1 := vNondetString("t1", vParam("n1"))
	s2 := vNondetString("t2", vParam("n2"))
	s3 := vNondetString("t3", vParam("n3"))
	s4 := vNondetString("t4", vParam("n4"))
	s5 := vNondetString("t5", vParam("n5"))
	d := vNondetString("d", vParam("nd"))
	vASCII(s0)
	vASCII(s1)
	vASCII(s2)
	vASCII(s3)
	vASCII(s4)
	vASCII(s5)
	mid := ""
	switch vParam("mid") {
	case 1:
		mid = " title="
	case 2:
		mid = "<i "
	}
	t0, t3, t4 := c01TextNode(p+s0), c01TextNode(s3), c01TextNode(s4)
	t1, t2 := c01TextNode(s1), c01TextNode(s2+mid+s5)
	action := &parse.ActionNode{NodeType: parse.NodeAction, Pipe: c01DotPipe()}
	callY := &parse.TemplateNode{NodeType: parse.NodeTemplate, Name: "y", Pipe: c01DotPipe()}
	mainNodes := []parse.Node{t0, callY, t3, action, t4}
	if vParam("twice") == 1 {
		// a second call site of the same helper from the same start context (it takes the
		// "already escaped" path of escapeTree): T0 {{template "y"}} T3 {{template "y"}} {{.}} T4
		callY2 := &parse.TemplateNode{NodeType: parse.NodeTemplate, Name: "y", Pipe: c01DotPipe()}
		mainNodes = []parse.Node{t0, callY, t3, callY2, action, t4}
	}
	mainTree := &parse.Tree{Name: "main", Root: &parse.ListNode{NodeType: parse.NodeList, Nodes: mainNodes}}
	var yNodes []parse.Node
	var zTree *parse.Tree
	if vParam("rec") == 2 {
		// mutual recursion: y = T1 {{if .}}{{template "z" .}}{{end}} T2 M T5,  z = {{template "y" .}} T6
		s6 := vNondetString("t6", vParam("n6"))
		vASCII(s6)
		inner := &parse.TemplateNode{NodeType: parse.NodeTemplate, Name: "z", Pipe: c01DotPipe()}
		ifn := &parse.IfNode{BranchNode: parse.BranchNode{NodeType: parse.NodeIf, Pipe: c01DotPipe(),
			List: &parse.ListNode{NodeType: parse.NodeList, Nodes: []parse.Node{inner}}}}
		yNodes = []parse.Node{t1, ifn, t2}
		back := &parse.TemplateNode{NodeType: parse.NodeTemplate, Name: "y", Pipe: c01DotPipe()}
		zAction := &parse.ActionNode{NodeType: parse.NodeAction, Pipe: c01DotPipe()}
		zTree = &parse.Tree{Name: "z", Root: &parse.ListNode{NodeType: parse.NodeList, Nodes: []parse.Node{back, zAction, c01TextNode(s6)}}}
	} else if vParam("rec") == 1 {
		inner := &parse.TemplateNode{NodeType: parse.NodeTemplate, Name: "y", Pipe: c01DotPipe()}
		ifn := &parse.IfNode{BranchNode: parse.BranchNode{NodeType: parse.NodeIf, Pipe: c01DotPipe(),
			List: &parse.ListNode{NodeType: parse.NodeList, Nodes: []parse.Node{inner}}}}
		yNodes = []parse.Node{t1, ifn, t2}
	} else {
		yNodes = []parse.Node{t1, t2}
	}
	yTree := &parse.Tree{Name: "y", Root: &parse.ListNode{NodeType: parse.NodeList, Nodes: yNodes}}

	tt := template.New("main")
	if _, err := tt.AddParseTree("main", mainTree); err != nil {
		return
	}
	ty, err := tt.AddParseTree("y", yTree)
	if err != nil {
		return
	}
	ns := &nameSpace{set: map[string]*Template{}}
	ns.esc = makeEscaper(ns)
	tm := &Template{text: tt, Tree: mainTree, nameSpace: ns}
	ns.set["main"] = tm
	ns.set["y"] = &Template{text: ty, Tree: yTree, nameSpace: ns}
	trees := map[string]*parse.Tree{"main": mainTree, "y": yTree}
	if zTree != nil {
		tz, err := tt.AddParseTree("z", zTree)
		if err != nil {
			return
		}
		ns.set["z"] = &Template{text: tz, Tree: zTree, nameSpace: ns}
		trees["z"] = zTree
	}
	e := &ns.esc
	c, _ := e.escapeTree(context{}, mainTree.Root, "main", 0)
	if c.state != stateText {
		vReach("rejected")
		return
	}
	vReach("accepted")
	cs := &c01Set{e: e, set: trees, action: action}
	maxDepth := 0
	if vParam("rec") >= 1 {
		maxDepth = 2
	}
	for depth := 0; depth <= maxDepth; depth++ {
		var a, b tok
		inertOut, ok1 := cs.expand(mainTree.Root, depth, "x")
		hostileOut, ok2 := cs.expand(mainTree.Root, depth, d)
		if !ok1 || !ok2 {
			continue // a run-time sanitizer error: Execute fails
		}
		a.run(inertOut)
		b.run(hostileOut)
		rawK := c01UnknownRaw(&a) || c01UnknownRaw(&b)
		scrK := c01ScriptEsc(&a) || c01ScriptEsc(&b)
		oddK := a.odd || b.odd
		same := a.st == b.st && a.raw == b.raw && a.starts == b.starts && a.ends == b.ends && a.attrs == b.attrs && a.comments == b.comments && a.fp == b.fp
		c01Assert(same, "untrusted data changed the tags, attributes, comments or the final tokenizer state of the output of a template call", rawK, scrK, oddK, a.oddSlash || b.oddSlash, a.oddCmt || b.oddCmt)
	}
}
