#!/bin/bash
# usage: tools/seed_eval.sh <prop> <N> [tier]   confirms a seeded change in its scratch worktree, stores it under
# /verif/seeded/<prop>-<N>/ and runs the check of <prop> against /repo with the patch applied (then restores /repo).
prop=$1; n=$2; tier=${3:-quick}; round=${4:-}
wt=/tmp/wt-$prop; [ -n "$round" ] && wt=/tmp/w$round-$prop
src=$wt/seed_out/$n
sid=$prop-$n; [ -n "$round" ] && sid=$prop-r$round-$n
export GOFLAGS=-mod=mod GOPROXY=off GOSUMDB=off GOTOOLCHAIN=local
[ -f $src/patch.diff ] || { echo "no patch at $src"; exit 2; }
dir=$(cat $src/demo_dir.txt | tr -d '\n ')
cd $wt && git checkout -q -- . && rm -f */seed_demo_*_test.go seed_demo_*_test.go
pkgs=$(go list ./... | grep -v seed_out)
# 1. with the change: builds, existing tests pass, demo fails
git apply $src/patch.diff || { echo "patch does not apply"; exit 2; }
build=ok; go build ./... >/dev/null 2>&1 || build=FAIL
suite=ok; go test -vet=off -count=1 $pkgs >/tmp/seed_suite.log 2>&1 || suite=FAIL
cp $src/demo_test.go $dir/seed_demo_${n}_test.go
demo_with=pass; go test -vet=off -count=1 -run "TestSeedDemo${n}\$" ./$dir >/tmp/seed_demo_with.log 2>&1 || demo_with=fail
# 2. without the change: demo passes
git checkout -q -- . 
demo_without=pass; go test -vet=off -count=1 -run "TestSeedDemo${n}\$" ./$dir >/tmp/seed_demo_without.log 2>&1 || demo_without=fail
rm -f $dir/seed_demo_${n}_test.go
echo "confirm $sid: build=$build suite=$suite demo_with_change=$demo_with demo_without_change=$demo_without"
# 3. our check against /repo with the patch
cd /verif
if [ -n "${SEED_SCRATCH:-}" ]; then
  # run against a scratch worktree of /repo's HEAD instead of /repo itself (lets other work continue on /repo)
  target=$SEED_SCRATCH
  [ -d $target ] || git -C /repo worktree add -q --detach $target HEAD
  git -C $target checkout -q --detach $(git -C /repo rev-parse HEAD) && git -C $target checkout -q -- .
  export VERIF_REPO=$target VERIF_EVIDENCE_DIR=/tmp/seed_evidence
else
  target=/repo
fi
git -C $target apply $src/patch.diff || { echo "patch does not apply to $target"; exit 2; }
VD=${SEED_VERIF:-/verif}
out=$(timeout 3600 $VD/checks/run.sh $prop $tier 2>&1); code=$?
others=""
if [ $code -ne 1 ] && [ -z "${SEED_NO_OTHERS:-}" ]; then
  # not reported by the property's own check: which other checks report it?
  for o in C01 C02 C03 C04 C08 C10 C11 C12 C13 C14 C15 C16 C17 C18 C20; do
    [ $o = $prop ] && continue
    timeout 1800 $VD/checks/run.sh $o quick >/tmp/seed_other.log 2>&1; oc=$?
    [ $oc -eq 1 ] && others="$others $o"
  done
fi
git -C $target checkout -- .
echo "check $prop $tier exit=$code other_checks_reporting:[$others ]"
echo "$out" | grep -E "^(VIOLATION|INCONCLUSIVE|  harness)" | head -4 | cut -c1-300
mkdir -p seeded/$sid
cp $src/patch.diff $src/demo_test.go $src/demo_dir.txt $src/README.md seeded/$sid/
first=$(echo "$out" | grep -E "^(VIOLATION|INCONCLUSIVE)" | head -1 | cut -c1-200)
detail=$(echo "$out" | grep -E "^  harness" | head -1 | cut -c1-400)
python3 - "$prop" "$sid" "$tier" "$build" "$suite" "$demo_with" "$demo_without" "$code" "$first" "$detail" "$others" <<'PY'
import json,sys
prop,n,tier,build,suite,dw,dwo,code,first,detail,others=sys.argv[1:]
meta={"property":prop,"seed":n,"origin":"independent sub-agent given only the property text and a scratch worktree",
 "confirmed":{"builds_with_change":build,"existing_suite_with_change":suite,"demo_with_change":dw,"demo_without_change":dwo,
   "how":"tools/seed_eval.sh: git apply in the scratch worktree, go build ./..., go test (library packages), demo test with and without the patch"},
 "check":{"tier":tier,"exit":int(code),"first_line":first,"detail":detail,"detected":int(code)==1,"other_checks_reporting":others.split()}}
json.dump(meta,open("/verif/seeded/%s/meta.json"%n,"w"),indent=1)
PY
