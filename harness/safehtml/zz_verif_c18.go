package safehtml

// C18: Identifier constructors admit only [A-Za-z][-_A-Za-z0-9]*, keep constant prefix.

func refIdentStart(b byte) bool {
	return ('a' <= b && b <= 'z') || ('A' <= b && b <= 'Z')
}

func refIdentByte(b byte) bool {
	return refIdentStart(b) || ('0' <= b && b <= '9') || b == '-' || b == '_'
}

// refIsIdentifier is the byte-level recogniser of [A-Za-z][-_A-Za-z0-9]*.
func refIsIdentifier(s string) bool {
	if len(s) == 0 || !refIdentStart(s[0]) {
		return false
	}
	ok := true
	for i := 1; i < len(s); i++ {
		ok = ok && refIdentByte(s[i])
	}
	return ok
}

func vHarness_C18_constant() {
	n := vParam("n")
	v := vNondetString("v", n)
	var out string
	if vPanics(func() { out = IdentifierFromConstant(stringConstant(v)).String() }) {
		return
	}
	vReach("accepted")
	vAssert(out == v, "IdentifierFromConstant returns its argument")
	vAssert(refIsIdentifier(out), "accepted identifier matches [A-Za-z][-_A-Za-z0-9]*")
}

func vHarness_C18_prefix() {
	np, n := vParam("np"), vParam("n")
	p := vNondetString("p", np)
	v := vNondetString("v", n)
	var out string
	if vPanics(func() { out = IdentifierFromConstantPrefix(stringConstant(p), v).String() }) {
		return
	}
	vReach("accepted")
	vAssert(out == p+"-"+v, "result is prefix, one hyphen, value")
	vAssert(refIsIdentifier(out), "accepted identifier matches [A-Za-z][-_A-Za-z0-9]*")
}

func vProbe_C18_constant(a []string) string {
	out := "panic"
	if !vPanics(func() { out = IdentifierFromConstant(stringConstant(a[0])).String() }) {
		return "ok:" + out
	}
	return out
}

func vProbe_C18_prefix(a []string) string {
	out := "panic"
	if !vPanics(func() { out = IdentifierFromConstantPrefix(stringConstant(a[0]), a[1]).String() }) {
		return "ok:" + out
	}
	return out
}
