# claim(id, level text, design ref)   /   notapp(id, reason)
claim("C18", "Bounded model checking of IdentifierFromConstant / IdentifierFromConstantPrefix from their SSA: for every byte string up to the bound, "
      "'no panic' implies the result is the argument (resp. prefix-hyphen-value) and matches an independent byte-level recogniser of [A-Za-z][-_A-Za-z0-9]*; "
      "the regular expressions are read from the current source. Universal inside the bound, silent outside it.", "DESIGN.md §6 C18")

HIST = ("a statement about API call histories / aliasing of pointer-linked parse trees driven by text/template's parser and reflection-based executor; "
        "there is no symbolic input whose bytes a solver could range over and the code cannot be encoded by the SSA encoder (DESIGN.md §7)")
notapp("C05", "sticky analysis failure: " + HIST)
notapp("C06", "history independence of execution results: " + HIST)
notapp("C07", "definition freeze and clone isolation: " + HIST)
notapp("C09", "concurrency: schedules of goroutines over sync.Mutex and unsynchronised tree reads; the engine has no concurrency or memory model (DESIGN.md §7)")
notapp("C19", "decided by the Go type checker and by enumerating exported identifiers, not by reasoning over values; nothing to hand to an SMT solver (DESIGN.md §7)")
for p in ["C01","C02","C03","C04","C08","C10","C11","C12","C13","C14","C15","C16","C17","C20"]:
    notapp(p, "planned (DESIGN.md §6) but the check is not built yet in this revision of /verif; not claimed until it runs clean")
