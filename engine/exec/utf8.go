package exec

import (
	"symgo/smt"
)

// Decoded is one guarded way of decoding a rune at a byte offset.
type Decoded struct {
	Cond  *smt.Term
	Rune  *smt.Term // 32 bits
	Width int
}

func (x *Exec) inRange(b *smt.Term, lo, hi byte) *smt.Term {
	c := x.Ctx
	return c.And(c.Uge(b, smt.Byte(lo)), c.Ule(b, smt.Byte(hi)))
}

// decodeAt returns the mutually exclusive decodings of the rune starting at
// s[pos], exactly as unicode/utf8.DecodeRuneInString: width 1 covers ASCII and
// every invalid byte (U+FFFD).
func (x *Exec) decodeAt(st *State, s Str, pos int) []Decoded {
	c := x.Ctx
	b0 := s.B[pos]
	z32 := func(t *smt.Term) *smt.Term { return c.Zext(t, 32) }
	and := func(t *smt.Term, m byte) *smt.Term { return c.Bin(smt.OpBvAnd, t, smt.Byte(m)) }
	shl := func(t *smt.Term, n uint64) *smt.Term { return c.Bin(smt.OpShl, t, smt.Const(32, n)) }
	or := func(a, b *smt.Term) *smt.Term { return c.Bin(smt.OpBvOr, a, b) }
	cont := func(b *smt.Term) *smt.Term { return x.inRange(b, 0x80, 0xBF) }
	rem := len(s.B) - pos
	v2, v3, v4 := smt.False, smt.False, smt.False
	var r2, r3, r4 *smt.Term
	if rem >= 2 {
		b1 := s.B[pos+1]
		v2 = c.And(x.inRange(b0, 0xC2, 0xDF), cont(b1))
		r2 = or(shl(z32(and(b0, 0x1F)), 6), z32(and(b1, 0x3F)))
	}
	if rem >= 3 {
		b1, b2 := s.B[pos+1], s.B[pos+2]
		lead := c.OrN(
			c.And(c.Eq(b0, smt.Byte(0xE0)), x.inRange(b1, 0xA0, 0xBF)),
			c.And(c.Or(x.inRange(b0, 0xE1, 0xEC), x.inRange(b0, 0xEE, 0xEF)), cont(b1)),
			c.And(c.Eq(b0, smt.Byte(0xED)), x.inRange(b1, 0x80, 0x9F)),
		)
		v3 = c.And(lead, cont(b2))
		r3 = or(or(shl(z32(and(b0, 0x0F)), 12), shl(z32(and(b1, 0x3F)), 6)), z32(and(b2, 0x3F)))
	}
	if rem >= 4 {
		b1, b2, b3 := s.B[pos+1], s.B[pos+2], s.B[pos+3]
		lead := c.OrN(
			c.And(c.Eq(b0, smt.Byte(0xF0)), x.inRange(b1, 0x90, 0xBF)),
			c.And(x.inRange(b0, 0xF1, 0xF3), cont(b1)),
			c.And(c.Eq(b0, smt.Byte(0xF4)), x.inRange(b1, 0x80, 0x8F)),
		)
		v4 = c.AndN(lead, cont(b2), cont(b3))
		r4 = or(or(or(shl(z32(and(b0, 0x07)), 18), shl(z32(and(b1, 0x3F)), 12)), shl(z32(and(b2, 0x3F)), 6)), z32(and(b3, 0x3F)))
	}
	ascii := c.Ult(b0, smt.Byte(0x80))
	w1 := c.Not(c.OrN(v2, v3, v4))
	r1 := c.Ite(ascii, z32(b0), smt.Const(32, 0xFFFD))
	out := []Decoded{{Cond: w1, Rune: r1, Width: 1}}
	if v2 != smt.False {
		out = append(out, Decoded{Cond: v2, Rune: r2, Width: 2})
	}
	if v3 != smt.False {
		out = append(out, Decoded{Cond: v3, Rune: r3, Width: 3})
	}
	if v4 != smt.False {
		out = append(out, Decoded{Cond: v4, Rune: r4, Width: 4})
	}
	return out
}

// allASCII reports whether the path condition forces every byte of s below 0x80.
func (x *Exec) allASCII(st *State, s Str) bool {
	c := x.Ctx
	non := smt.False
	for _, b := range s.B {
		if b.IsConst() {
			if b.Val >= 0x80 {
				return false
			}
			continue
		}
		non = c.Or(non, c.Uge(b, smt.Byte(0x80)))
	}
	if non == smt.False {
		return true
	}
	if x.Concrete {
		return false
	}
	feas, _ := x.feasible(st, non)
	return !feas
}

// decodeAll enumerates the width patterns of s and calls mk with the runes of each.
func (x *Exec) decodeAll(st *State, s Str, mk func(st *State, runes []*smt.Term) Value) []Outcome {
	c := x.Ctx
	if x.allASCII(st, s) {
		runes := make([]*smt.Term, len(s.B))
		for i, b := range s.B {
			runes[i] = c.Zext(b, 32)
		}
		return []Outcome{{Cond: smt.True, Then: nil, Val: lazyVal{func(cs *State) Value { return mk(cs, runes) }}}}
	}
	var outs []Outcome
	var rec func(pos int, cond *smt.Term, runes []*smt.Term)
	rec = func(pos int, cond *smt.Term, runes []*smt.Term) {
		if pos == len(s.B) {
			rs := append([]*smt.Term(nil), runes...)
			outs = append(outs, Outcome{Cond: cond, Val: lazyVal{func(cs *State) Value { return mk(cs, rs) }}})
			return
		}
		for _, d := range x.decodeAt(st, s, pos) {
			nc := c.And(cond, d.Cond)
			if nc == smt.False {
				continue
			}
			if !nc.IsConst() && !x.Concrete {
				if ok, _ := x.feasible(st, nc); !ok {
					continue
				}
			} else if x.Concrete && nc != smt.True {
				continue
			}
			rec(pos+d.Width, nc, append(runes, d.Rune))
		}
	}
	rec(0, smt.True, nil)
	return outs
}

// lazyVal defers construction of a value until the child state exists (so that
// allocations land in the right heap).
type lazyVal struct{ mk func(cs *State) Value }

// runeWidthConds returns conditions for the encoded width of rune r as
// utf8.EncodeRune / string(rune) see it: surrogates and out-of-range become U+FFFD (3 bytes).
func (x *Exec) encodeRune(r *smt.Term) []struct {
	Cond  *smt.Term
	Bytes []*smt.Term
} {
	c := x.Ctx
	type enc = struct {
		Cond  *smt.Term
		Bytes []*smt.Term
	}
	k := func(v uint64) *smt.Term { return smt.Const(32, v) }
	lo8 := func(t *smt.Term) *smt.Term { return c.Extract(t, 7, 0) }
	shr := func(t *smt.Term, n uint64) *smt.Term { return c.Bin(smt.OpLshr, t, k(n)) }
	and := func(t *smt.Term, m uint64) *smt.Term { return c.Bin(smt.OpBvAnd, t, k(m)) }
	or8 := func(t *smt.Term, m byte) *smt.Term { return c.Bin(smt.OpBvOr, lo8(t), smt.Byte(m)) }
	// r is an int32 in Go; negative values are invalid
	w1 := c.Ult(r, k(0x80))
	w2 := c.And(c.Uge(r, k(0x80)), c.Ult(r, k(0x800)))
	surr := c.And(c.Uge(r, k(0xD800)), c.Ule(r, k(0xDFFF)))
	w3 := c.AndN(c.Uge(r, k(0x800)), c.Ult(r, k(0x10000)), c.Not(surr))
	w4 := c.And(c.Uge(r, k(0x10000)), c.Ule(r, k(0x10FFFF)))
	bad := c.Or(surr, c.Ugt(r, k(0x10FFFF)))
	var out []enc
	out = append(out, enc{w1, []*smt.Term{lo8(r)}})
	out = append(out, enc{w2, []*smt.Term{or8(shr(r, 6), 0xC0), or8(and(r, 0x3F), 0x80)}})
	out = append(out, enc{w3, []*smt.Term{or8(shr(r, 12), 0xE0), or8(and(shr(r, 6), 0x3F), 0x80), or8(and(r, 0x3F), 0x80)}})
	out = append(out, enc{w4, []*smt.Term{or8(shr(r, 18), 0xF0), or8(and(shr(r, 12), 0x3F), 0x80), or8(and(shr(r, 6), 0x3F), 0x80), or8(and(r, 0x3F), 0x80)}})
	out = append(out, enc{bad, []*smt.Term{smt.Byte(0xEF), smt.Byte(0xBF), smt.Byte(0xBD)}})
	return out
}

// encodeRunes converts runes to a string, forking on the encoded widths. Encodings
// of equal width are merged (3-byte valid and U+FFFD replacement).
func (x *Exec) encodeRunes(st *State, runes []Value) []Outcome {
	c := x.Ctx
	type partial struct {
		cond *smt.Term
		b    []*smt.Term
	}
	cur := []partial{{smt.True, nil}}
	for _, rv := range runes {
		r := rv.(*smt.Term)
		if r.W != 32 {
			r = c.Resize(r, 32, true)
		}
		encs := x.encodeRune(r)
		// merge the two 3-byte forms
		e3, eb := encs[2], encs[4]
		m3 := make([]*smt.Term, 3)
		for i := range m3 {
			m3[i] = c.Ite(eb.Cond, eb.Bytes[i], e3.Bytes[i])
		}
		forms := []struct {
			Cond  *smt.Term
			Bytes []*smt.Term
		}{encs[0], encs[1], {c.Or(e3.Cond, eb.Cond), m3}, encs[3]}
		var next []partial
		for _, p := range cur {
			for _, f := range forms {
				nc := c.And(p.cond, f.Cond)
				if nc == smt.False {
					continue
				}
				if !nc.IsConst() {
					if x.Concrete {
						continue
					}
					if ok, _ := x.feasible(st, nc); !ok {
						continue
					}
				}
				nb := make([]*smt.Term, 0, len(p.b)+len(f.Bytes))
				nb = append(nb, p.b...)
				nb = append(nb, f.Bytes...)
				next = append(next, partial{nc, nb})
			}
		}
		cur = next
	}
	outs := make([]Outcome, len(cur))
	for i, p := range cur {
		outs[i] = Outcome{Cond: p.cond, Val: Str{B: p.b}}
	}
	return outs
}
