// symgo: bounded symbolic model checking of google/safehtml from go/ssa.
package main

import (
	"encoding/hex"
	"encoding/json"
	"flag"
	"fmt"
	"os"
	"runtime/pprof"
	"sort"
	"strconv"
	"strings"
	"time"

	"symgo/exec"
)

func usage() {
	fmt.Fprintln(os.Stderr, `usage:
  symgo check  -prop <id> [-tier quick|thorough] [-repo /repo] [-verif /verif]
  symgo replay <replay.json> [-repo /repo] [-verif /verif]
  symgo job    -pkg <pkgdir> -harness <fn> -params k=v,k=v [-trace]   (debugging)
  symgo probe  -pkg <pkgdir> -probe <fn> -args hex,hex                  (debugging)`)
	os.Exit(2)
}

func main() {
	if len(os.Args) < 2 {
		usage()
	}
	switch os.Args[1] {
	case "check":
		os.Exit(cmdCheck(os.Args[2:]))
	case "replay":
		os.Exit(cmdReplay(os.Args[2:]))
	case "job":
		os.Exit(cmdJob(os.Args[2:]))
	case "probe":
		os.Exit(cmdProbe(os.Args[2:]))
	}
	usage()
}

func parseParams(s string) map[string]int {
	m := map[string]int{}
	if s == "" {
		return m
	}
	for _, kv := range strings.Split(s, ",") {
		var k string
		var v int
		parts := strings.SplitN(kv, "=", 2)
		k = parts[0]
		fmt.Sscanf(parts[1], "%d", &v)
		m[k] = v
	}
	return m
}

func cmdJob(args []string) int {
	fs := flag.NewFlagSet("job", flag.ExitOnError)
	repo := fs.String("repo", "/repo", "")
	verif := fs.String("verif", "/verif", "")
	pkg := fs.String("pkg", "safehtml", "harness package dir")
	harness := fs.String("harness", "", "")
	params := fs.String("params", "", "")
	trace := fs.Bool("trace", false, "")
	solver := fs.String("solver", "z3-new", "")
	eager := fs.Bool("eager", false, "")
	prof := fs.String("cpuprofile", "", "")
	fs.Parse(args)
	env, err := newEnv(*repo, *verif)
	if err != nil {
		fmt.Println("ERROR", err)
		return 2
	}
	defer env.cleanup()
	w, err := env.load()
	if err != nil {
		fmt.Println("LOAD ERROR:", err)
		return 2
	}
	if *prof != "" {
		f, _ := os.Create(*prof)
		pprof.StartCPUProfile(f)
		defer pprof.StopCPUProfile()
		if d := os.Getenv("SYMGO_PROFSECS"); d != "" {
			n, _ := strconv.Atoi(d)
			go func() { time.Sleep(time.Duration(n) * time.Second); pprof.StopCPUProfile(); os.Exit(3) }()
		}
	}
	res := w.RunJob(exec.JobSpec{Pkg: pkgPath(*pkg), Harness: *harness, Params: parseParams(*params)}, exec.JobOpts{Solver: *solver, TimeoutMS: 60000, Trace: *trace, Eager: *eager})
	printJob(res)
	return 0
}

func printJob(res *exec.JobResult) {
	fmt.Printf("job %s %v: paths=%d states=%d instrs=%d forks=%d merges=%d mergefails=%d cut=%d undecided=%d oblig=%d/%d queries=%d solver=%v wall=%v nodes=%d\n",
		res.Spec.Harness, res.Spec.Params, res.Paths, res.States, res.Instrs, res.Forks, res.Merges, res.MergeFails, res.Cut, res.Undecided, res.Discharged, res.Obligations, res.Queries, res.SolverTime, res.Wall, res.Nodes)
	if res.Err != "" {
		fmt.Println("  ERR:", res.Err)
	}
	for _, e := range res.Slow {
		fmt.Println("  SLOW:", e)
	}
	for _, e := range res.SolverErrs {
		fmt.Println("  SOLVER ERR:", e)
	}
	for _, f := range res.Findings {
		fmt.Printf("  FINDING %s: %s [%s] known=%q unknown=%v\n", f.Kind, f.Msg, f.Pos, f.Known, f.Unknown)
		printInputs(f.Inputs)
	}
	var tags []string
	for t := range res.Reached {
		tags = append(tags, t)
	}
	sort.Strings(tags)
	for _, t := range tags {
		fmt.Printf("  REACHED %s\n", t)
		printInputs(res.Reached[t])
	}
}

func printInputs(in map[string][]byte) {
	var names []string
	for n := range in {
		names = append(names, n)
	}
	sort.Strings(names)
	for _, n := range names {
		fmt.Printf("      %s = %q (%s)\n", n, string(in[n]), hex.EncodeToString(in[n]))
	}
}

func cmdProbe(args []string) int {
	fs := flag.NewFlagSet("probe", flag.ExitOnError)
	repo := fs.String("repo", "/repo", "")
	verif := fs.String("verif", "/verif", "")
	pkg := fs.String("pkg", "safehtml", "")
	probe := fs.String("probe", "", "")
	pargs := fs.String("args", "", "comma separated hex strings")
	fs.Parse(args)
	env, err := newEnv(*repo, *verif)
	if err != nil {
		fmt.Println("ERROR", err)
		return 2
	}
	defer env.cleanup()
	w, err := env.load()
	if err != nil {
		fmt.Println("LOAD ERROR:", err)
		return 2
	}
	var as []string
	if *pargs != "" {
		for _, h := range strings.Split(*pargs, ",") {
			b, _ := hex.DecodeString(h)
			as = append(as, string(b))
		}
	}
	out, err := w.RunProbe(pkgPath(*pkg), *probe, as)
	fmt.Printf("%q err=%v\n", out, err)
	return 0
}

func jsonStr(v interface{}) string {
	b, _ := json.Marshal(v)
	return string(b)
}
