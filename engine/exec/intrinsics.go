package exec

import (
	"fmt"
	"os"
	"strconv"
	"go/types"
	"sort"
	"strings"
	"unicode"

	"golang.org/x/tools/go/ssa"

	"symgo/smt"
)

func builtinIntrinsics() map[string]Intrinsic {
	m := map[string]Intrinsic{}
	// ---- regexp ----
	m["regexp.MustCompile"] = inRegexpMustCompile
	m["(*regexp.Regexp).MatchString"] = inRegexpMatchString
	m["(*regexp.Regexp).FindStringSubmatch"] = inRegexpFindStringSubmatch
	m["(*regexp.Regexp).ReplaceAllString"] = inRegexpReplaceAllString
	m["(*regexp.Regexp).ReplaceAllStringFunc"] = inRegexpReplaceAllStringFunc
	m["(*regexp.Regexp).FindAllStringIndex"] = inRegexpFindAllStringIndex
	// ---- fmt / errors ----
	m["fmt.Errorf"] = inErrorToken
	m["errors.New"] = inErrorToken
	m["fmt.Sprintf"] = inSprintf
	m["fmt.Fprintf"] = inFprintf
	m["fmt.Sprint"] = inSprint
	// ---- strings ----
	m["strings.ToLower"] = func(x *Exec, s *State, a []Value, _ *ssa.Call) []Outcome { return x.caseMap(s, a[0].(Str), false) }
	m["strings.ToUpper"] = func(x *Exec, s *State, a []Value, _ *ssa.Call) []Outcome { return x.caseMap(s, a[0].(Str), true) }
	m["strings.IndexByte"] = func(x *Exec, s *State, a []Value, _ *ssa.Call) []Outcome {
		return x.indexByte(a[0].(Str), a[1].(*smt.Term))
	}
	m["strings.IndexRune"] = func(x *Exec, s *State, a []Value, _ *ssa.Call) []Outcome {
		r, ok := constInt(a[1])
		if !ok || r >= 0x80 || r < 0 {
			unsupported("strings.IndexRune with non-ASCII or symbolic rune")
		}
		return x.indexByte(a[0].(Str), smt.Byte(byte(r)))
	}
	m["strings.ContainsRune"] = func(x *Exec, s *State, a []Value, _ *ssa.Call) []Outcome {
		r, ok := constInt(a[1])
		if !ok || r >= 0x80 || r < 0 {
			unsupported("strings.ContainsRune with non-ASCII or symbolic rune")
		}
		return one(x.containsByte(a[0].(Str), smt.Byte(byte(r))))
	}
	m["strings.IndexAny"] = func(x *Exec, s *State, a []Value, _ *ssa.Call) []Outcome {
		return x.indexAny(a[0].(Str), a[1].(Str))
	}
	m["strings.ContainsAny"] = func(x *Exec, s *State, a []Value, _ *ssa.Call) []Outcome {
		chars := asciiSet(a[1].(Str))
		res := smt.False
		for _, b := range a[0].(Str).B {
			res = x.Ctx.Or(res, x.byteIn(b, chars))
		}
		return one(res)
	}
	m["strings.Contains"] = func(x *Exec, s *State, a []Value, _ *ssa.Call) []Outcome {
		return one(x.containsSub(a[0].(Str), a[1].(Str)))
	}
	m["strings.Index"] = func(x *Exec, s *State, a []Value, _ *ssa.Call) []Outcome {
		return x.indexSub(a[0].(Str), a[1].(Str))
	}
	m["strings.Join"] = func(x *Exec, s *State, a []Value, _ *ssa.Call) []Outcome {
		parts := s.sliceElems(a[0].(Slice))
		sep := a[1].(Str)
		var out Str
		for i, p := range parts {
			if i > 0 {
				out = concatStr(out, sep)
			}
			out = concatStr(out, p.(Str))
		}
		return one(out)
	}
	m["strings.Fields"] = func(x *Exec, s *State, a []Value, _ *ssa.Call) []Outcome {
		if cs, ok := a[0].(Str).Concrete(); ok {
			fs := strings.Fields(cs)
			el := make([]Value, len(fs))
			for i, f := range fs {
				el[i] = StrOf(f)
			}
			if len(el) == 0 {
				return one(Slice{})
			}
			return []Outcome{{Cond: smt.True, Val: lazyVal{func(cs *State) Value { return cs.newSlice(el) }}}}
		}
		return x.fieldsSym(s, a[0].(Str))
	}
	m["strings.TrimSpace"] = func(x *Exec, s *State, a []Value, _ *ssa.Call) []Outcome {
		if cs, ok := a[0].(Str).Concrete(); ok {
			return one(StrOf(strings.TrimSpace(cs)))
		}
		return x.trimSpaceSym(s, a[0].(Str))
	}
	m["strings.Title"] = func(x *Exec, s *State, a []Value, _ *ssa.Call) []Outcome {
		if cs, ok := a[0].(Str).Concrete(); ok {
			return one(StrOf(strings.Title(cs)))
		}
		// symbolic text: exact for ASCII (a letter after a byte that is not an ASCII
		// alphanumeric or '_' is upper-cased); paths with a byte >= 0x80 are cut
		c := x.Ctx
		str := a[0].(Str)
		ascii := x.allASCIITerm(str)
		out := Str{B: make([]*smt.Term, len(str.B))}
		in := func(b *smt.Term, lo, hi byte) *smt.Term { return c.And(c.Uge(b, smt.Byte(lo)), c.Ule(b, smt.Byte(hi))) }
		for i, b := range str.B {
			sep := smt.True
			if i > 0 {
				p := str.B[i-1]
				sep = c.Not(c.Or(c.Or(in(p, '0', '9'), in(p, 'a', 'z')), c.Or(in(p, 'A', 'Z'), c.Eq(p, smt.Byte('_')))))
			}
			out.B[i] = c.Ite(c.And(sep, in(b, 'a', 'z')), c.Sub(b, smt.Byte(32)), b)
		}
		outs := []Outcome{{Cond: ascii, Val: out}}
		if ascii != smt.True {
			outs = append(outs, Outcome{Cond: c.Not(ascii), Cut: "strings.Title on symbolic text containing non-ASCII bytes"})
		}
		return outs
	}
	// strings.Replacer: NewReplacer with concrete old/new pairs is kept as an opaque object;
	// Replace scans left to right, at each position taking the first pair (in argument order)
	// whose old string matches - the documented semantics - and forks on the match pattern.
	m["strings.NewReplacer"] = func(x *Exec, s *State, a []Value, _ *ssa.Call) []Outcome {
		el := s.sliceElems(a[0].(Slice))
		if len(el)%2 != 0 {
			return panicOutcome("strings.NewReplacer: odd argument count")
		}
		pairs := make([]string, len(el))
		for i, e := range el {
			cs, ok := e.(Str).Concrete()
			if !ok {
				unsupported("strings.NewReplacer with a symbolic argument")
			}
			if i%2 == 0 && cs == "" {
				unsupported("strings.NewReplacer with an empty old string")
			}
			pairs[i] = cs
		}
		ext := x.W.newExt("strings.Replacer", pairs)
		return []Outcome{{Cond: smt.True, Val: lazyVal{func(cs *State) Value { return Ptr{Obj: cs.alloc(ext)} }}}}
	}
	m["(*strings.Replacer).Replace"] = func(x *Exec, s *State, a []Value, _ *ssa.Call) []Outcome {
		p, ok := a[0].(Ptr)
		if !ok || p.Obj == 0 {
			return panicOutcome("nil pointer dereference ((*strings.Replacer).Replace)")
		}
		ext, ok := s.load(p).(*Ext)
		if !ok || ext.Kind != "strings.Replacer" {
			unsupported("strings.Replacer with unexpected representation")
		}
		return x.replacerReplace(s, ext.V.([]string), a[1].(Str))
	}
	// ---- bytes ----
	m["bytes.IndexByte"] = func(x *Exec, s *State, a []Value, _ *ssa.Call) []Outcome {
		return x.indexByte(s.bytesOf(a[0].(Slice)), a[1].(*smt.Term))
	}
	m["bytes.Index"] = func(x *Exec, s *State, a []Value, _ *ssa.Call) []Outcome {
		return x.indexSub(s.bytesOf(a[0].(Slice)), s.bytesOf(a[1].(Slice)))
	}
	m["bytes.Contains"] = func(x *Exec, s *State, a []Value, _ *ssa.Call) []Outcome {
		return one(x.containsSub(s.bytesOf(a[0].(Slice)), s.bytesOf(a[1].(Slice))))
	}
	m["bytes.IndexAny"] = func(x *Exec, s *State, a []Value, _ *ssa.Call) []Outcome {
		return x.indexAny(s.bytesOf(a[0].(Slice)), a[1].(Str))
	}
	m["bytes.Equal"] = func(x *Exec, s *State, a []Value, _ *ssa.Call) []Outcome {
		return one(x.strEq(s.bytesOf(a[0].(Slice)), s.bytesOf(a[1].(Slice))))
	}
	m["bytes.HasPrefix"] = func(x *Exec, s *State, a []Value, _ *ssa.Call) []Outcome {
		b, p := s.bytesOf(a[0].(Slice)), s.bytesOf(a[1].(Slice))
		if len(b.B) < len(p.B) {
			return one(smt.False)
		}
		return one(x.strEq(Str{B: b.B[:len(p.B)]}, p))
	}
	m["bytes.EqualFold"] = func(x *Exec, s *State, a []Value, _ *ssa.Call) []Outcome {
		return one(x.equalFoldASCII(s.bytesOf(a[0].(Slice)), s.bytesOf(a[1].(Slice))))
	}
	m["bytes.ToUpper"] = func(x *Exec, s *State, a []Value, _ *ssa.Call) []Outcome {
		outs := x.caseMap(s, s.bytesOf(a[0].(Slice)), true)
		for i := range outs {
			str := outs[i].Val.(Str)
			outs[i].Val = lazyVal{func(cs *State) Value { return cs.newByteSlice(str) }}
		}
		return outs
	}
	m["bytes.NewBuffer"] = func(x *Exec, s *State, a []Value, _ *ssa.Call) []Outcome {
		content := s.bytesOf(a[0].(Slice))
		return []Outcome{{Cond: smt.True, Val: lazyVal{func(cs *State) Value {
			id := cs.alloc(&StructVal{F: []Value{content, intConst(0), smt.Const(8, 0)}})
			return Ptr{Obj: id}
		}}}}
	}
	bufMethods(m)
	builderMethods(m)
	// internal/bytealg entry points reached from standard-library code that is run from its SSA
	m["internal/bytealg.IndexByteString"] = func(x *Exec, s *State, a []Value, _ *ssa.Call) []Outcome {
		return x.indexByte(a[0].(Str), a[1].(*smt.Term))
	}
	m["internal/bytealg.IndexByte"] = func(x *Exec, s *State, a []Value, _ *ssa.Call) []Outcome {
		return x.indexByte(s.bytesOf(a[0].(Slice)), a[1].(*smt.Term))
	}
	m["internal/bytealg.IndexString"] = func(x *Exec, s *State, a []Value, _ *ssa.Call) []Outcome {
		return x.indexSub(a[0].(Str), a[1].(Str))
	}
	m["internal/bytealg.Index"] = func(x *Exec, s *State, a []Value, _ *ssa.Call) []Outcome {
		return x.indexSub(s.bytesOf(a[0].(Slice)), s.bytesOf(a[1].(Slice)))
	}
	m["internal/bytealg.CountString"] = func(x *Exec, s *State, a []Value, _ *ssa.Call) []Outcome {
		c := x.Ctx
		n := intConst(0)
		for _, b := range a[0].(Str).B {
			n = c.Ite(c.Eq(b, a[1].(*smt.Term)), c.Add(n, intConst(1)), n)
		}
		return one(n)
	}
	// ---- html ----
	m["html.EscapeString"] = func(x *Exec, s *State, a []Value, _ *ssa.Call) []Outcome { return x.htmlEscape(s, a[0].(Str)) }
	// ---- unicode/utf8 ----
	m["unicode/utf8.RuneLen"] = func(x *Exec, s *State, a []Value, _ *ssa.Call) []Outcome {
		var outs []Outcome
		for i, e := range x.encodeRune(x.Ctx.Resize(a[0].(*smt.Term), 32, true)) {
			w := len(e.Bytes)
			if i == 4 {
				w = -1
			}
			outs = append(outs, Outcome{Cond: e.Cond, Val: intConst(w)})
		}
		return outs
	}
	m["unicode/utf8.DecodeRuneInString"] = func(x *Exec, s *State, a []Value, _ *ssa.Call) []Outcome {
		str := a[0].(Str)
		if len(str.B) == 0 {
			return one(Tuple{smt.Const(32, 0xFFFD), intConst(0)})
		}
		var outs []Outcome
		for _, d := range x.decodeAt(s, str, 0) {
			outs = append(outs, Outcome{Cond: d.Cond, Val: Tuple{d.Rune, intConst(d.Width)}})
		}
		return outs
	}
	m["unicode/utf8.DecodeRune"] = func(x *Exec, s *State, a []Value, _ *ssa.Call) []Outcome {
		str := s.bytesOf(a[0].(Slice))
		if len(str.B) == 0 {
			return one(Tuple{smt.Const(32, 0xFFFD), intConst(0)})
		}
		var outs []Outcome
		for _, d := range x.decodeAt(s, str, 0) {
			outs = append(outs, Outcome{Cond: d.Cond, Val: Tuple{d.Rune, intConst(d.Width)}})
		}
		return outs
	}
	// ---- sort / strconv ----
	m["sort.Strings"] = inSortStrings
	m["strconv.ParseFloat"] = inParseFloat
	// ---- sync ----
	noop := func(x *Exec, s *State, a []Value, _ *ssa.Call) []Outcome { return one(nil) }
	m["(*sync.Once).Do"] = inOnceDo
	m["encoding/json.Marshal"] = inJSONMarshal
	m["(*encoding/json.Encoder).Encode"] = inJSONEncode
	m["(*sync.Pool).Get"] = inPoolGet
	m["(*sync.Pool).Put"] = func(x *Exec, s *State, a []Value, _ *ssa.Call) []Outcome { return one(nil) }
	m[RepoModule+"/internal/safehtmlutil.Indirect"] = inIndirect
	m[RepoModule+"/internal/safehtmlutil.indirectToStringerOrError"] = inIndirectToStringer
	m[RepoModule+"/template.indirectToStringerOrError"] = inIndirectToStringer
	// sync.Mutex in a single goroutine: the state field records whether the mutex is held;
	// locking a held mutex (the call would block forever) and unlocking a free one are reported
	mutexState := func(s *State, p Ptr) *smt.Term {
		sv, ok := s.load(p).(*StructVal)
		if !ok || len(sv.F) == 0 {
			unsupported("sync.Mutex with unexpected representation")
		}
		st, ok := sv.F[0].(*smt.Term)
		if !ok {
			unsupported("sync.Mutex with unexpected state field")
		}
		return st
	}
	mutexSet := func(p Ptr, held bool) func(cs *State) {
		return func(cs *State) {
			sv := cs.load(p).(*StructVal)
			n := &StructVal{F: append([]Value(nil), sv.F...)}
			v := uint64(0)
			if held {
				v = 1
			}
			n.F[0] = smt.Const(sv.F[0].(*smt.Term).W, v)
			cs.store(p, n)
		}
	}
	m["(*sync.Mutex).Lock"] = func(x *Exec, s *State, a []Value, _ *ssa.Call) []Outcome {
		p := a[0].(Ptr)
		st := mutexState(s, p)
		free := x.Ctx.Eq(st, smt.Const(st.W, 0))
		return []Outcome{{Cond: free, Then: mutexSet(p, true)},
			{Cond: x.Ctx.Not(free), Panic: "deadlock: sync.Mutex.Lock on a mutex that is already held (an earlier call returned without unlocking)"}}
	}
	m["(*sync.Mutex).Unlock"] = func(x *Exec, s *State, a []Value, _ *ssa.Call) []Outcome {
		p := a[0].(Ptr)
		st := mutexState(s, p)
		free := x.Ctx.Eq(st, smt.Const(st.W, 0))
		return []Outcome{{Cond: x.Ctx.Not(free), Then: mutexSet(p, false)}, {Cond: free, Panic: "sync: unlock of unlocked mutex"}}
	}
	m["(*sync.Mutex).TryLock"] = func(x *Exec, s *State, a []Value, _ *ssa.Call) []Outcome {
		p := a[0].(Ptr)
		st := mutexState(s, p)
		free := x.Ctx.Eq(st, smt.Const(st.W, 0))
		return []Outcome{{Cond: free, Val: smt.True, Then: mutexSet(p, true)}, {Cond: x.Ctx.Not(free), Val: smt.False}}
	}
	// registering the sanitizer functions with text/template's (reflection-based) executor has no
	// effect on the analysis state the harnesses observe
	m["(*text/template.Template).Funcs"] = func(x *Exec, s *State, a []Value, _ *ssa.Call) []Outcome {
		if p, ok := a[0].(Ptr); ok && p.Obj == 0 {
			return panicOutcome("nil pointer dereference ((*text/template.Template).Funcs on a nil template)")
		}
		return one(a[0])
	}
	// text/template's reflection-based executor is the environment of the template API: it is
	// stubbed by its contract. Without a parse tree it returns an error and writes nothing;
	// otherwise it writes an arbitrary byte string (one symbolic byte here, or nothing) and
	// returns either nil or a run-time error raised after that partial output.
	m["(*text/template.Template).Execute"] = func(x *Exec, s *State, a []Value, _ *ssa.Call) []Outcome {
		tp, ok := a[0].(Ptr)
		if !ok || tp.Obj == 0 {
			return panicOutcome("nil pointer dereference ((*text/template.Template).Execute on a nil template)")
		}
		sv := s.load(tp).(*StructVal)
		errVal := Iface{T: x.W.ErrType, V: x.W.newExt("error", nil)}
		if tree, isP := sv.F[1].(Ptr); isP && tree.Obj == 0 {
			return one(errVal) // "incomplete or empty template"
		}
		w, ok := a[1].(Iface)
		if !ok || w.T == nil || w.T.String() != "*bytes.Buffer" {
			unsupported("text/template Execute stub: writer %v", w.T)
		}
		bp := w.V.(Ptr)
		s.StubN++
		b := x.newBytes(fmt.Sprintf("exec_out%d", s.StubN), 2)
		c := x.Ctx
		// b[1] selects the behaviour: bit 0 = writes b[0], bit 1 = returns an error
		wr := c.Eq(c.Bin(smt.OpBvAnd, b[1], smt.Byte(1)), smt.Byte(1))
		fail := c.Eq(c.Bin(smt.OpBvAnd, b[1], smt.Byte(2)), smt.Byte(2))
		// a data value of the harness type vExecData{Fail bool} decides the run-time error (its
		// method M, called by the action {{.M}}, returns an error iff Fail): this keeps the
		// stub's choice reproducible in the native replay
		if d, isI := a[2].(Iface); isI && d.T != nil && strings.HasSuffix(d.T.String(), ".vExecData") {
			if dv, isS := d.V.(*StructVal); isS && len(dv.F) == 1 {
				if ft, isT := dv.F[0].(*smt.Term); isT {
					fail = ft
				}
			}
		}
		out := Str{B: []*smt.Term{b[0]}}
		return []Outcome{
			{Cond: c.And(wr, fail), Val: errVal, Then: func(cs *State) { bufAppend(cs, bp, out) }},
			{Cond: c.And(wr, c.Not(fail)), Val: Iface{}, Then: func(cs *State) { bufAppend(cs, bp, out) }},
			{Cond: c.And(c.Not(wr), fail), Val: errVal},
			{Cond: c.And(c.Not(wr), c.Not(fail)), Val: Iface{}},
		}
	}
	m["(*sync.RWMutex).RLock"] = noop
	m["(*sync.RWMutex).RUnlock"] = noop
	m["(*sync.RWMutex).Lock"] = noop
	m["(*sync.RWMutex).Unlock"] = noop
	// ---- reflect (only what package initialisers touch) ----
	m["reflect.TypeOf"] = func(x *Exec, s *State, a []Value, _ *ssa.Call) []Outcome {
		return one(Iface{T: types.Typ[types.Int], V: &Ext{Kind: "reflect.Type"}})
	}
	return m
}

// ---------- small byte-level helpers ----------

func asciiSet(chars Str) []byte {
	cs, ok := chars.Concrete()
	if !ok {
		unsupported("character set argument must be concrete")
	}
	for i := 0; i < len(cs); i++ {
		if cs[i] >= 0x80 {
			unsupported("non-ASCII character set %q", cs)
		}
	}
	return []byte(cs)
}

// provablyASCII: every leaf of the ite / value-set term is an ASCII constant.
func (x *Exec) provablyASCII(t *smt.Term) bool {
	switch t.Op {
	case smt.OpConst:
		return t.Val < 0x80
	case smt.OpIte:
		return x.provablyASCII(t.A[1]) && x.provablyASCII(t.A[2])
	case smt.OpVS:
		for _, v := range t.Vals {
			if v >= 0x80 {
				return false
			}
		}
		return true
	}
	return false
}

func (x *Exec) byteIn(b *smt.Term, set []byte) *smt.Term {
	res := smt.False
	for _, ch := range set {
		res = x.Ctx.Or(res, x.Ctx.Eq(b, smt.Byte(ch)))
	}
	return res
}

func (x *Exec) containsByte(s Str, b *smt.Term) *smt.Term {
	res := smt.False
	for _, t := range s.B {
		res = x.Ctx.Or(res, x.Ctx.Eq(t, b))
	}
	return res
}

// firstIndex builds the outcomes of "index of the first position k with hit[k], or -1".
func (x *Exec) firstIndex(hit []*smt.Term) []Outcome {
	c := x.Ctx
	var outs []Outcome
	none := smt.True
	for k, h := range hit {
		cond := c.And(none, h)
		if cond != smt.False {
			outs = append(outs, Outcome{Cond: cond, Val: intConst(k)})
		}
		none = c.And(none, c.Not(h))
		if none == smt.False {
			return outs
		}
	}
	outs = append(outs, Outcome{Cond: none, Val: intConst(-1)})
	return outs
}

func (x *Exec) indexByte(s Str, b *smt.Term) []Outcome {
	hit := make([]*smt.Term, len(s.B))
	for i, t := range s.B {
		hit[i] = x.Ctx.Eq(t, b)
	}
	return x.firstIndex(hit)
}

func (x *Exec) indexAny(s Str, chars Str) []Outcome {
	if _, conc := chars.Concrete(); !conc {
		// a character set with symbolic bytes (selected from a table by a symbolic index):
		// byte-wise membership, exact when every set byte is ASCII
		c := x.Ctx
		for _, ch := range chars.B {
			if !x.provablyASCII(ch) {
				unsupported("character set argument with possibly non-ASCII symbolic bytes")
			}
		}
		hit := make([]*smt.Term, len(s.B))
		for i, t := range s.B {
			h := smt.False
			for _, ch := range chars.B {
				h = c.Or(h, c.Eq(t, ch))
			}
			hit[i] = h
		}
		return x.firstIndex(hit)
	}
	set := asciiSet(chars)
	hit := make([]*smt.Term, len(s.B))
	for i, t := range s.B {
		hit[i] = x.byteIn(t, set)
	}
	return x.firstIndex(hit)
}

func (x *Exec) subAt(s, sub Str, k int) *smt.Term {
	return x.strEq(Str{B: s.B[k : k+len(sub.B)]}, sub)
}

func (x *Exec) indexSub(s, sub Str) []Outcome {
	if len(sub.B) == 0 {
		return one(intConst(0))
	}
	var hit []*smt.Term
	for k := 0; k+len(sub.B) <= len(s.B); k++ {
		hit = append(hit, x.subAt(s, sub, k))
	}
	return x.firstIndex(hit)
}

func (x *Exec) containsSub(s, sub Str) *smt.Term {
	if len(sub.B) == 0 {
		return smt.True
	}
	res := smt.False
	for k := 0; k+len(sub.B) <= len(s.B); k++ {
		res = x.Ctx.Or(res, x.subAt(s, sub, k))
	}
	return res
}

func (x *Exec) asciiLower(b *smt.Term) *smt.Term {
	c := x.Ctx
	return c.Ite(x.inRange(b, 'A', 'Z'), c.Add(b, smt.Byte(32)), b)
}

// equalFoldASCII models bytes.EqualFold(a, b) where a is concrete ASCII without the
// letters k and s (whose fold orbits contain non-ASCII runes); see DESIGN.md §3.5.
func (x *Exec) equalFoldASCII(a, b Str) *smt.Term {
	ca, ok := a.Concrete()
	if !ok {
		cb, ok2 := b.Concrete()
		if !ok2 {
			unsupported("bytes.EqualFold with two symbolic operands")
		}
		a, b, ca = b, a, cb
	}
	for i := 0; i < len(ca); i++ {
		if ca[i] >= 0x80 {
			unsupported("bytes.EqualFold with non-ASCII constant")
		}
	}
	if len(a.B) != len(b.B) {
		// a non-ASCII rune folding to ASCII is multi-byte; with a concrete ASCII operand of
		// length n the other operand must have n runes; shorter byte length is impossible,
		// longer only with K (U+212A) or ſ (U+017F)
		if !strings.ContainsAny(strings.ToLower(ca), "ks") || len(b.B) < len(a.B) {
			return smt.False
		}
		unsupported("bytes.EqualFold of different lengths with k/s in the constant")
	}
	c := x.Ctx
	res := smt.True
	for i := range a.B {
		lc := ca[i]
		if 'A' <= lc && lc <= 'Z' {
			lc += 32
		}
		res = c.And(res, c.Eq(x.asciiLower(b.B[i]), smt.Byte(lc)))
	}
	return res
}

// ---------- case mapping ----------

type caseRange struct {
	lo, hi rune
	delta  rune // unicode.UpperLower handled separately
	alt    bool
}

func caseTable(upper bool) []caseRange {
	var t []caseRange
	idx := unicode.LowerCase
	if upper {
		idx = unicode.UpperCase
	}
	for _, cr := range unicode.CaseRanges {
		d := cr.Delta[idx]
		if d == 0 {
			continue
		}
		if d > unicode.MaxRune {
			t = append(t, caseRange{lo: rune(cr.Lo), hi: rune(cr.Hi), alt: true})
			continue
		}
		t = append(t, caseRange{lo: rune(cr.Lo), hi: rune(cr.Hi), delta: rune(d)})
	}
	return t
}

var lowerTab, upperTab = caseTable(false), caseTable(true)

// mapRune is unicode.ToLower / ToUpper as a term.
func (x *Exec) mapRune(r *smt.Term, upper bool) *smt.Term {
	c := x.Ctx
	if r.IsConst() {
		if upper {
			return smt.Const(32, uint64(uint32(unicode.ToUpper(rune(int32(r.Val))))))
		}
		return smt.Const(32, uint64(uint32(unicode.ToLower(rune(int32(r.Val))))))
	}
	tab := lowerTab
	if upper {
		tab = upperTab
	}
	k := func(v rune) *smt.Term { return smt.Const(32, uint64(uint32(v))) }
	res := r
	for i := len(tab) - 1; i >= 0; i-- {
		cr := tab[i]
		in := c.And(c.Uge(r, k(cr.lo)), c.Ule(r, k(cr.hi)))
		var mapped *smt.Term
		if cr.alt {
			// UpperLower: alternating; Lo is upper. ToUpper: lo + ((r-lo) &^ 1); ToLower: lo + ((r-lo) | 1)
			off := c.Sub(r, k(cr.lo))
			if upper {
				mapped = c.Add(k(cr.lo), c.Bin(smt.OpBvAnd, off, smt.Const(32, 0xFFFFFFFE)))
			} else {
				mapped = c.Add(k(cr.lo), c.Bin(smt.OpBvOr, off, smt.Const(32, 1)))
			}
		} else {
			mapped = c.Add(r, k(cr.delta))
		}
		res = c.Ite(in, mapped, res)
	}
	return res
}

// caseWidths[upper][w] is the set of encoded widths that the case mapping of a rune of
// encoded width w can have (computed from the engine's own unicode tables).
var caseWidths [2][5]map[int]bool

func init() {
	for u := 0; u < 2; u++ {
		for w := 1; w <= 4; w++ {
			caseWidths[u][w] = map[int]bool{}
		}
		for r := rune(0); r <= unicode.MaxRune; r++ {
			if r >= 0xD800 && r <= 0xDFFF {
				continue
			}
			m := unicode.ToLower(r)
			if u == 1 {
				m = unicode.ToUpper(r)
			}
			caseWidths[u][runeLen(r)][runeLen(m)] = true
		}
		caseWidths[u][1][3] = true // an invalid byte becomes U+FFFD
	}
}

func runeLen(r rune) int {
	switch {
	case r < 0x80:
		return 1
	case r < 0x800:
		return 2
	case r < 0x10000:
		return 3
	}
	return 4
}

// mapRuneW is mapRune for a rune known to have encoded width w (smaller formula).
func (x *Exec) mapRuneW(r *smt.Term, upper bool, w int) *smt.Term {
	c := x.Ctx
	if r.IsConst() {
		return x.mapRune(r, upper)
	}
	lo, hi := rune(0), rune(0x7F)
	switch w {
	case 2:
		lo, hi = 0x80, 0x7FF
	case 3:
		lo, hi = 0x800, 0xFFFF
	case 4:
		lo, hi = 0x10000, unicode.MaxRune
	}
	tab := lowerTab
	if upper {
		tab = upperTab
	}
	k := func(v rune) *smt.Term { return smt.Const(32, uint64(uint32(v))) }
	res := r
	for i := len(tab) - 1; i >= 0; i-- {
		cr := tab[i]
		if cr.hi < lo || cr.lo > hi {
			continue
		}
		in := c.And(c.Uge(r, k(cr.lo)), c.Ule(r, k(cr.hi)))
		var mapped *smt.Term
		if cr.alt {
			off := c.Sub(r, k(cr.lo))
			if upper {
				mapped = c.Add(k(cr.lo), c.Bin(smt.OpBvAnd, off, smt.Const(32, 0xFFFFFFFE)))
			} else {
				mapped = c.Add(k(cr.lo), c.Bin(smt.OpBvOr, off, smt.Const(32, 1)))
			}
		} else {
			mapped = c.Add(r, k(cr.delta))
		}
		res = c.Ite(in, mapped, res)
	}
	return res
}

// caseMap is strings.ToLower / ToUpper / bytes.ToUpper: decode, map every rune,
// encode. Invalid bytes become U+FFFD (as strings.Map does). The result carries its
// rune structure so that a regular expression applied to it need not re-decode.
func (x *Exec) caseMap(st *State, s Str, upper bool) []Outcome {
	c := x.Ctx
	if cs, ok := s.Concrete(); ok {
		if upper {
			return one(StrOf(strings.ToUpper(cs)))
		}
		return one(StrOf(strings.ToLower(cs)))
	}
	mapASCII := func(b *smt.Term) *smt.Term {
		if upper {
			return c.Ite(x.inRange(b, 'a', 'z'), c.Sub(b, smt.Byte(32)), b)
		}
		return x.asciiLower(b)
	}
	if x.allASCII(st, s) {
		out := make([]*smt.Term, len(s.B))
		for i, b := range s.B {
			out[i] = mapASCII(b)
		}
		return one(Str{B: out})
	}
	ui := 0
	if upper {
		ui = 1
	}
	type partial struct {
		cond  *smt.Term
		b     []*smt.Term
		off   []int
		runes []*smt.Term
	}
	var outs []Outcome
	var rec func(pos int, p partial)
	rec = func(pos int, p partial) {
		if pos == len(s.B) {
			meta := &RuneMeta{Off: append(append([]int(nil), p.off...), len(p.b)), Runes: append([]*smt.Term(nil), p.runes...)}
			outs = append(outs, Outcome{Cond: p.cond, Val: Str{B: append([]*smt.Term(nil), p.b...), R: meta}})
			return
		}
		for _, d := range x.decodeAt(st, s, pos) {
			dc := c.And(p.cond, d.Cond)
			if dc == smt.False {
				continue
			}
			if ok, _ := x.feasible(st, dc); !ok {
				continue
			}
			var m *smt.Term
			if d.Width == 1 {
				b := s.B[pos]
				m = c.Ite(c.Ult(b, smt.Byte(0x80)), c.Zext(mapASCII(b), 32), smt.Const(32, 0xFFFD))
			} else {
				m = x.mapRuneW(d.Rune, upper, d.Width)
			}
			encs := x.encodeRune(m)
			e3, eb := encs[2], encs[4]
			m3 := make([]*smt.Term, 3)
			for i := range m3 {
				m3[i] = c.Ite(eb.Cond, eb.Bytes[i], e3.Bytes[i])
			}
			forms := [][2]interface{}{{encs[0].Cond, encs[0].Bytes}, {encs[1].Cond, encs[1].Bytes}, {c.Or(e3.Cond, eb.Cond), m3}, {encs[3].Cond, encs[3].Bytes}}
			nWidths := 0
			for wi := range forms {
				ow := wi + 1
				if !caseWidths[ui][d.Width][ow] {
					continue
				}
				nWidths++
			}
			for wi, f := range forms {
				ow := wi + 1
				if !caseWidths[ui][d.Width][ow] {
					continue
				}
				nc := c.And(dc, f[0].(*smt.Term))
				if nc == smt.False {
					continue
				}
				if nWidths > 1 {
					if ok, _ := x.feasible(st, nc); !ok {
						continue
					}
				}
				np := partial{cond: nc}
				np.b = append(append([]*smt.Term(nil), p.b...), f[1].([]*smt.Term)...)
				np.off = append(append([]int(nil), p.off...), len(p.b))
				np.runes = append(append([]*smt.Term(nil), p.runes...), m)
				rec(pos+d.Width, np)
			}
		}
	}
	rec(0, partial{cond: smt.True})
	return outs
}

// ---------- html.EscapeString ----------

func (x *Exec) htmlEscape(st *State, s Str) []Outcome {
	c := x.Ctx
	type partial struct {
		cond *smt.Term
		b    []*smt.Term
	}
	repl := map[byte]string{'&': "&amp;", '<': "&lt;", '>': "&gt;", '"': "&#34;", '\'': "&#39;"}
	order := []byte{'&', '<', '>', '"', '\''}
	cur := []partial{{smt.True, nil}}
	for _, b := range s.B {
		var next []partial
		if b.IsConst() {
			r, special := repl[byte(b.Val)]
			for _, p := range cur {
				nb := append([]*smt.Term(nil), p.b...)
				if special {
					nb = append(nb, StrOf(r).B...)
				} else {
					nb = append(nb, b)
				}
				next = append(next, partial{p.cond, nb})
			}
			cur = next
			continue
		}
		// group replacements by length: 4 (&lt; &gt;), 5 (&amp; &#34; &#39;), 1 (other)
		is := func(ch byte) *smt.Term { return c.Eq(b, smt.Byte(ch)) }
		len4 := c.Or(is('<'), is('>'))
		len5 := c.OrN(is('&'), is('"'), is('\''))
		plain := c.Not(c.Or(len4, len5))
		four := make([]*smt.Term, 4)
		for i := 0; i < 4; i++ {
			four[i] = c.Ite(is('<'), smt.Byte("&lt;"[i]), smt.Byte("&gt;"[i]))
		}
		five := make([]*smt.Term, 5)
		for i := 0; i < 5; i++ {
			five[i] = c.Ite(is('&'), smt.Byte("&amp;"[i]), c.Ite(is('"'), smt.Byte("&#34;"[i]), smt.Byte("&#39;"[i])))
		}
		_ = order
		for _, p := range cur {
			for _, alt := range []struct {
				cond *smt.Term
				bs   []*smt.Term
			}{{plain, []*smt.Term{b}}, {len4, four}, {len5, five}} {
				nc := c.And(p.cond, alt.cond)
				if nc == smt.False {
					continue
				}
				if ok, _ := x.feasible(st, nc); !ok {
					continue
				}
				nb := make([]*smt.Term, 0, len(p.b)+len(alt.bs))
				nb = append(nb, p.b...)
				nb = append(nb, alt.bs...)
				next = append(next, partial{nc, nb})
			}
		}
		cur = next
	}
	outs := make([]Outcome, len(cur))
	for i, p := range cur {
		outs[i] = Outcome{Cond: p.cond, Val: Str{B: p.b}}
	}
	return outs
}

// ---------- regexp ----------

func rxOf(v Value) *compiledRx {
	e, ok := v.(*Ext)
	if !ok || e.Kind != "regexp" {
		unsupported("regexp receiver is %T", v)
	}
	return e.V.(*compiledRx)
}

func inRegexpMustCompile(x *Exec, s *State, a []Value, _ *ssa.Call) []Outcome {
	pat, ok := a[0].(Str).Concrete()
	if !ok {
		unsupported("regexp.MustCompile of a symbolic pattern")
	}
	rx, err := x.W.compileRx(pat)
	if err != nil {
		return panicOutcome("regexp: Compile(" + pat + "): " + err.Error())
	}
	return one(x.W.newExt("regexp", rx))
}

func inRegexpMatchString(x *Exec, s *State, a []Value, _ *ssa.Call) []Outcome {
	return one(x.rxMatches(s, rxOf(a[0]), a[1].(Str)))
}

func inRegexpFindStringSubmatch(x *Exec, s *State, a []Value, _ *ssa.Call) []Outcome {
	rx := rxOf(a[0])
	str := a[1].(Str)
	var outs []Outcome
	if os.Getenv("SYMGO_DEBUG") != "" {
		fmt.Println("FindStringSubmatch len", len(str.B), "meta", str.R != nil, "results", len(x.rxFind(s, rx, str, 0)))
	}
	for _, r := range x.rxFind(s, rx, str, 0) {
		if r.Caps == nil {
			outs = append(outs, Outcome{Cond: r.Cond, Val: Slice{}})
			continue
		}
		el := make([]Value, rx.NumCap+1)
		for i := range el {
			lo, hi := r.Caps[2*i], r.Caps[2*i+1]
			if lo < 0 || hi < 0 {
				el[i] = Str{}
			} else {
				el[i] = Str{B: str.B[lo:hi]}
			}
		}
		outs = append(outs, Outcome{Cond: r.Cond, Val: lazyVal{func(cs *State) Value { return cs.newSlice(el) }}})
	}
	return outs
}

// rxSegmentations enumerates the successive non-overlapping leftmost-first matches of
// rx in str (the semantics of ReplaceAll*): each result is a guarded list of spans.
func (x *Exec) rxSegmentations(s *State, rx *compiledRx, str Str) (conds []*smt.Term, spans [][][2]int) {
	c := x.Ctx
	var rec func(from int, cond *smt.Term, acc [][2]int, sub *State)
	rec = func(from int, cond *smt.Term, acc [][2]int, sub *State) {
		for _, r := range x.rxFind(sub, rx, str, from) {
			nc := c.And(cond, r.Cond)
			if nc == smt.False {
				continue
			}
			if r.Caps == nil {
				conds = append(conds, nc)
				spans = append(spans, append([][2]int(nil), acc...))
				continue
			}
			lo, hi := r.Caps[0], r.Caps[1]
			if hi == lo {
				unsupported("ReplaceAll with a pattern that matches the empty string (%q)", rx.Pattern)
			}
			ns := &State{W: s.W, PC: append(append([]*smt.Term(nil), sub.PC...), r.Cond)}
			ok, m := x.feasible(sub, r.Cond)
			if !ok {
				continue
			}
			ns.Model = m
			rec(hi, nc, append(append([][2]int(nil), acc...), [2]int{lo, hi}), ns)
		}
	}
	rec(0, smt.True, nil, s)
	return
}

func inRegexpReplaceAllString(x *Exec, s *State, a []Value, _ *ssa.Call) []Outcome {
	rx := rxOf(a[0])
	str := a[1].(Str)
	repl, ok := a[2].(Str).Concrete()
	if !ok || strings.Contains(repl, "$") {
		unsupported("ReplaceAllString with symbolic or expanding replacement")
	}
	conds, spans := x.rxSegmentations(s, rx, str)
	var outs []Outcome
	for i := range conds {
		var out Str
		prev := 0
		for _, sp := range spans[i] {
			out = concatStr(out, Str{B: str.B[prev:sp[0]]})
			out = concatStr(out, StrOf(repl))
			prev = sp[1]
		}
		out = concatStr(out, Str{B: str.B[prev:]})
		outs = append(outs, Outcome{Cond: conds[i], Val: out})
	}
	return outs
}

func inRegexpFindAllStringIndex(x *Exec, s *State, a []Value, _ *ssa.Call) []Outcome {
	rx := rxOf(a[0])
	str := a[1].(Str)
	if n, ok := constInt(a[2]); !ok || n >= 0 {
		unsupported("FindAllStringIndex with a limit")
	}
	conds, spans := x.rxSegmentations(s, rx, str)
	var outs []Outcome
	for i := range conds {
		sp := spans[i]
		if len(sp) == 0 {
			outs = append(outs, Outcome{Cond: conds[i], Val: Slice{}})
			continue
		}
		outs = append(outs, Outcome{Cond: conds[i], Val: lazyVal{func(cs *State) Value {
			el := make([]Value, len(sp))
			for k, p := range sp {
				el[k] = cs.newSlice([]Value{intConst(p[0]), intConst(p[1])})
			}
			return cs.newSlice(el)
		}}})
	}
	return outs
}

// replaceFuncData drives ReplaceAllStringFunc: the callback is run by the interpreter.
type replaceFuncData struct {
	str   Str
	spans [][2]int
	fn    Value
}

func inRegexpReplaceAllStringFunc(x *Exec, s *State, a []Value, call *ssa.Call) []Outcome {
	rx := rxOf(a[0])
	str := a[1].(Str)
	conds, spans := x.rxSegmentations(s, rx, str)
	var outs []Outcome
	for i := range conds {
		sp := spans[i]
		if len(sp) == 0 {
			outs = append(outs, Outcome{Cond: conds[i], Val: str})
			continue
		}
		data := &replaceFuncData{str: str, spans: sp, fn: a[2]}
		outs = append(outs, Outcome{Cond: conds[i], Val: nativeCall{&NativeDriver{Kind: "ReplaceAllStringFunc", Data: data, Resume: resumeReplaceFunc}}})
	}
	return outs
}

func resumeReplaceFunc(x *Exec, s *State, f *Frame) {
	d := f.Nat.Data.(*replaceFuncData)
	acc, _ := f.NatAcc.(Str)
	if f.NatHasRet {
		acc = concatStr(acc, f.NatRet.(Str))
		f.NatHasRet, f.NatRet = false, nil
		f.NatStep++
	}
	if f.NatStep == len(d.spans) {
		prev := d.spans[len(d.spans)-1][1]
		acc = concatStr(acc, Str{B: d.str.B[prev:]})
		x.popFrame(s, acc)
		return
	}
	prev := 0
	if f.NatStep > 0 {
		prev = d.spans[f.NatStep-1][1]
	}
	sp := d.spans[f.NatStep]
	acc = concatStr(acc, Str{B: d.str.B[prev:sp[0]]})
	f.NatAcc = acc
	x.callValue(s, d.fn, []Value{Str{B: d.str.B[sp[0]:sp[1]]}})
}

// ---------- fmt ----------

func inErrorToken(x *Exec, s *State, a []Value, _ *ssa.Call) []Outcome {
	return one(Iface{T: x.W.ErrType, V: x.W.newExt("error", nil)})
}

// stringify renders one Sprintf operand for %s / %v, or reports that it cannot.
func (x *Exec) stringify(s *State, v Value) (Str, bool) {
	iv, ok := v.(Iface)
	if !ok {
		return Str{}, false
	}
	if iv.T == nil {
		return StrOf("<nil>"), true
	}
	switch inner := iv.V.(type) {
	case Str:
		return inner, true
	case Slice:
		if sl, ok := iv.T.Underlying().(*types.Slice); ok {
			if w, _, _ := scalarInfo(sl.Elem()); w == 8 {
				return s.bytesOf(inner), true
			}
		}
	case *StructVal:
		// the safe types: struct{ str string } with a String method
		if len(inner.F) == 1 {
			if str, ok := inner.F[0].(Str); ok && hasStringMethod(iv.T) {
				return str, true
			}
		}
	case Ptr:
		if inner.Obj == 0 {
			return StrOf("<nil>"), true
		}
		if sv, ok := s.load(inner).(*StructVal); ok && len(sv.F) == 1 && hasStringMethod(iv.T) {
			if str, ok := sv.F[0].(Str); ok {
				return str, true
			}
		}
	case *smt.Term:
		if inner.IsConst() {
			_, signed, _ := scalarInfo(iv.T)
			if inner.W == 0 {
				return StrOf(fmt.Sprint(inner.Val == 1)), true
			}
			if signed {
				return StrOf(fmt.Sprint(int64(smt.Eval(x.Ctx.Sext(inner, 64), nil, nil)))), true
			}
			return StrOf(fmt.Sprint(inner.Val)), true
		}
	}
	return Str{}, false
}

func hasStringMethod(t types.Type) bool {
	ms := types.NewMethodSet(t)
	for i := 0; i < ms.Len(); i++ {
		if ms.At(i).Obj().Name() == "String" {
			return true
		}
	}
	return false
}

const hexdigits = "0123456789abcdef"

func (x *Exec) hexNibble(n *smt.Term, upper bool) *smt.Term {
	// n is an 8-bit term < 16
	c := x.Ctx
	base := byte('a')
	if upper {
		base = 'A'
	}
	return c.Ite(c.Ult(n, smt.Byte(10)), c.Add(n, smt.Byte('0')), c.Add(n, smt.Byte(base-10)))
}

// format implements Sprintf for constant formats with %s %v %d(concrete) %q(opaque) %02x %06X %%.
func (x *Exec) format(s *State, fstr Str, args []Value) Value {
	f, ok := fstr.Concrete()
	if !ok {
		return Opaque{"Sprintf with symbolic format"}
	}
	c := x.Ctx
	var out Str
	ai := 0
	for i := 0; i < len(f); i++ {
		if f[i] != '%' {
			out.B = append(out.B, smt.Byte(f[i]))
			continue
		}
		j := i + 1
		for j < len(f) && strings.IndexByte("0123456789.+-# ", f[j]) >= 0 {
			j++
		}
		if j >= len(f) {
			return Opaque{"bad format"}
		}
		spec, verb := f[i+1:j], f[j]
		i = j
		if verb == '%' {
			out.B = append(out.B, smt.Byte('%'))
			continue
		}
		if ai >= len(args) {
			return Opaque{"missing format operand"}
		}
		arg := args[ai]
		ai++
		switch {
		case (verb == 's' || verb == 'v') && spec == "":
			str, ok := x.stringify(s, arg)
			if !ok {
				return Opaque{fmt.Sprintf("Sprintf %%%c of unmodelled operand", verb)}
			}
			out = concatStr(out, str)
		case verb == 'x' && spec == "02":
			iv := arg.(Iface)
			t, ok := iv.V.(*smt.Term)
			if !ok || t.W != 8 {
				return Opaque{"%02x of non-byte"}
			}
			hi := c.Bin(smt.OpLshr, t, smt.Byte(4))
			lo := c.Bin(smt.OpBvAnd, t, smt.Byte(15))
			out.B = append(out.B, x.hexNibble(hi, false), x.hexNibble(lo, false))
		case verb == 'X' && spec == "06":
			iv := arg.(Iface)
			t, ok := iv.V.(*smt.Term)
			if !ok || t.W != 32 {
				return Opaque{"%06X of non-rune"}
			}
			// exact for values < 0x1000000; larger (or negative) values are not produced by valid runes
			if top := c.Ugt(t, smt.Const(32, 0xFFFFFF)); top != smt.False {
				if feas, _ := x.feasible(s, top); feas {
					return Opaque{"%06X of a rune above 0xFFFFFF"}
				}
			}
			for sh := 20; sh >= 0; sh -= 4 {
				nib := c.Extract(c.Bin(smt.OpLshr, t, smt.Const(32, uint64(sh))), 7, 0)
				nib = c.Bin(smt.OpBvAnd, nib, smt.Byte(15))
				out.B = append(out.B, x.hexNibble(nib, true))
			}
		default:
			return Opaque{fmt.Sprintf("Sprintf verb %%%s%c", spec, verb)}
		}
	}
	if ai < len(args) {
		return Opaque{"Sprintf verb: unused operands"}
	}
	return out
}

func inSprintf(x *Exec, s *State, a []Value, _ *ssa.Call) []Outcome {
	fstr := a[0].(Str)
	if _, ok := fstr.Concrete(); !ok {
		return x.formatSym(s, fstr, s.sliceElems(a[1].(Slice)))
	}
	v := x.format(s, fstr, s.sliceElems(a[1].(Slice)))
	if o, isO := v.(Opaque); isO && (strings.HasPrefix(o.Why, "Sprintf verb") || o.Why == "missing format operand" || o.Why == "bad format") {
		// a constant format the simple model does not cover: use the general model where it
		// applies; otherwise the text stays unmodelled (an error description nobody inspects)
		outs := x.formatSym(s, fstr, s.sliceElems(a[1].(Slice)))
		for _, oc := range outs {
			if oc.Cut != "" {
				return one(v)
			}
		}
		return outs
	}
	return one(v)
}

// formatSym models fmt's doPrintf for a format with symbolic bytes and operands that are
// plain strings (or values with a String method, for %s and %v only). Every byte of the
// format is split into "literal" and "'%'"; after a '%' the verb byte selects "%%", the
// operand (%s %v), its hexadecimal form (%x %X), "string" (%T), the bad-verb form
// "%!c(string=operand)" or "%!c(MISSING)", and "%!(NOVERB)" at the end of the format; unused
// operands are reported as "%!(EXTRA string=operand, ...)". Flags, widths, precisions, explicit
// argument indexes, %q and non-ASCII verbs are outside the encoded fragment: those paths
// are cut and recorded as an assumption.
func (x *Exec) formatSym(s *State, f Str, args []Value) []Outcome {
	c := x.Ctx
	type operand struct {
		str   Str
		plain bool // dynamic type string
		ok    bool
	}
	ops := make([]operand, len(args))
	for i, a := range args {
		str, ok := x.stringify(s, a)
		iv, _ := a.(Iface)
		_, plain := iv.V.(Str)
		if plain && iv.T != nil {
			if b, isB := iv.T.(*types.Basic); !isB || b.Kind() != types.String {
				plain = false
			}
		}
		ops[i] = operand{str, plain, ok}
	}
	const cutWhy = "fmt format with symbolic bytes: flags, width, precision, argument index, %q, %c-style verbs on non-string operands and non-ASCII verbs are not encoded"
	var outs []Outcome
	n := len(f.B)
	lit := func(out Str, t string) Str { return concatStr(out, StrOf(t)) }
	var rec func(i, ai int, out Str, g *smt.Term)
	finish := func(ai int, out Str, g *smt.Term) {
		if ai < len(ops) {
			out = lit(out, "%!(EXTRA ")
			for k := ai; k < len(ops); k++ {
				if !ops[k].plain || !ops[k].ok {
					outs = append(outs, Outcome{Cond: g, Cut: cutWhy})
					return
				}
				if k > ai {
					out = lit(out, ", ")
				}
				out = concatStr(lit(out, "string="), ops[k].str)
			}
			out = lit(out, ")")
		}
		outs = append(outs, Outcome{Cond: g, Val: out})
	}
	rec = func(i, ai int, out Str, g *smt.Term) {
		if g == smt.False {
			return
		}
		if i == n {
			finish(ai, out, g)
			return
		}
		b := f.B[i]
		isPct := c.Eq(b, smt.Byte('%'))
		if isPct != smt.True {
			o2 := Str{B: append(append([]*smt.Term(nil), out.B...), b)}
			rec(i+1, ai, o2, c.And(g, c.Not(isPct)))
		}
		if isPct == smt.False {
			return
		}
		g2 := c.And(g, isPct)
		if feas, _ := x.feasible(s, g2); !feas {
			return
		}
		if i+1 == n {
			finish(ai, lit(out, "%!(NOVERB)"), g2)
			return
		}
		v := f.B[i+1]
		in := func(set string) *smt.Term {
			r := smt.False
			for k := 0; k < len(set); k++ {
				r = c.Or(r, c.Eq(v, smt.Byte(set[k])))
			}
			return r
		}
		cutC := c.Or(in("#0+- 123456789.*[q"), c.Uge(v, smt.Byte(0x80)))
		if cutC != smt.False {
			outs = append(outs, Outcome{Cond: c.And(g2, cutC), Cut: cutWhy})
		}
		g3 := c.And(g2, c.Not(cutC))
		isP := c.Eq(v, smt.Byte('%'))
		rec(i+2, ai, lit(out, "%"), c.And(g3, isP))
		g4 := c.And(g3, c.Not(isP))
		if g4 == smt.False {
			return
		}
		if ai >= len(ops) {
			o2 := lit(out, "%!")
			o2.B = append(o2.B, v)
			rec(i+2, ai, lit(o2, "(MISSING)"), g4)
			return
		}
		op := ops[ai]
		if !op.ok {
			outs = append(outs, Outcome{Cond: g4, Cut: cutWhy})
			return
		}
		isSV := in("sv")
		rec(i+2, ai+1, concatStr(out, op.str), c.And(g4, isSV))
		rest := c.And(g4, c.Not(isSV))
		if rest == smt.False {
			return
		}
		if !op.plain {
			outs = append(outs, Outcome{Cond: rest, Cut: cutWhy})
			return
		}
		for _, up := range []bool{false, true} {
			vb := byte('x')
			if up {
				vb = 'X'
			}
			hx := out
			hx.B = append([]*smt.Term(nil), out.B...)
			for _, ob := range op.str.B {
				hx.B = append(hx.B, x.hexNibble(c.Bin(smt.OpLshr, ob, smt.Byte(4)), up), x.hexNibble(c.Bin(smt.OpBvAnd, ob, smt.Byte(15)), up))
			}
			rec(i+2, ai+1, hx, c.And(rest, c.Eq(v, smt.Byte(vb))))
		}
		rec(i+2, ai+1, lit(out, "string"), c.And(rest, c.Eq(v, smt.Byte('T'))))
		bad := c.And(rest, c.Not(in("xXT")))
		o2 := lit(out, "%!")
		o2.B = append(o2.B, v)
		o2 = concatStr(lit(o2, "(string="), op.str)
		rec(i+2, ai+1, lit(o2, ")"), bad)
	}
	rec(0, 0, Str{}, smt.True)
	if len(outs) == 0 {
		unsupported("fmt format with symbolic bytes: no feasible case")
	}
	return outs
}

func inSprint(x *Exec, s *State, a []Value, _ *ssa.Call) []Outcome {
	args := s.sliceElems(a[0].(Slice))
	var out Str
	for i, arg := range args {
		str, ok := x.stringify(s, arg)
		if !ok {
			return one(Opaque{"Sprint of unmodelled operand"})
		}
		// Sprint adds spaces between operands when neither is a string
		if i > 0 {
			_, aStr := args[i-1].(Iface).V.(Str)
			_, bStr := arg.(Iface).V.(Str)
			if !aStr && !bStr {
				out.B = append(out.B, smt.Byte(' '))
			}
		}
		out = concatStr(out, str)
	}
	return one(out)
}

func inFprintf(x *Exec, s *State, a []Value, _ *ssa.Call) []Outcome {
	w, ok := a[0].(Iface)
	if !ok || w.T == nil || w.T.String() != "*bytes.Buffer" {
		unsupported("fmt.Fprintf to %v", w.T)
	}
	_, conc := a[1].(Str).Concrete()
	if conc {
		if o, isO := x.format(s, a[1].(Str), s.sliceElems(a[2].(Slice))).(Opaque); isO && (strings.HasPrefix(o.Why, "Sprintf verb") || o.Why == "missing format operand" || o.Why == "bad format") {
			conc = false
			for _, oc := range x.formatSym(s, a[1].(Str), s.sliceElems(a[2].(Slice))) {
				if oc.Cut != "" {
					conc = true // keep the old behaviour (unsupported) rather than dropping the path
				}
			}
		}
	}
	if !conc {
		outs := x.formatSym(s, a[1].(Str), s.sliceElems(a[2].(Slice)))
		p := w.V.(Ptr)
		for i := range outs {
			if outs[i].Cut != "" {
				continue
			}
			str := outs[i].Val.(Str)
			outs[i].Val = Tuple{intConst(len(str.B)), Iface{}}
			outs[i].Then = func(cs *State) { bufAppend(cs, p, str) }
		}
		return outs
	}
	v := x.format(s, a[1].(Str), s.sliceElems(a[2].(Slice)))
	str, ok := v.(Str)
	if !ok {
		unsupported("fmt.Fprintf: %s", v.(Opaque).Why)
	}
	bufAppend(s, w.V.(Ptr), str)
	return one(Tuple{intConst(len(str.B)), Iface{}})
}

// ---------- bytes.Buffer ----------
// A Buffer object is modelled as StructVal{content Str, off int, lastRead}; only the
// append-only and read-advance methods are supported.

func bufLoad(s *State, p Ptr) (Str, int) {
	sv := s.load(p).(*StructVal)
	var content Str
	switch c := sv.F[0].(type) {
	case Str:
		content = c
	case Slice:
		content = s.bytesOf(c) // zero Buffer: nil slice
	}
	off, _ := constInt(sv.F[1])
	return content, off
}

func bufStore(s *State, p Ptr, content Str, off int) {
	sv := s.load(p).(*StructVal)
	n := &StructVal{F: append([]Value(nil), sv.F...)}
	n.F[0] = content
	n.F[1] = intConst(off)
	s.store(p, n)
}

func bufAppend(s *State, p Ptr, str Str) {
	content, off := bufLoad(s, p)
	bufStore(s, p, concatStr(content, str), off)
}

func bufMethods(m map[string]Intrinsic) {
	m["(*bytes.Buffer).WriteString"] = func(x *Exec, s *State, a []Value, _ *ssa.Call) []Outcome {
		str := a[1].(Str)
		bufAppend(s, a[0].(Ptr), str)
		return one(Tuple{intConst(len(str.B)), Iface{}})
	}
	m["(*bytes.Buffer).Write"] = func(x *Exec, s *State, a []Value, _ *ssa.Call) []Outcome {
		str := s.bytesOf(a[1].(Slice))
		bufAppend(s, a[0].(Ptr), str)
		return one(Tuple{intConst(len(str.B)), Iface{}})
	}
	m["(*bytes.Buffer).WriteByte"] = func(x *Exec, s *State, a []Value, _ *ssa.Call) []Outcome {
		bufAppend(s, a[0].(Ptr), Str{B: []*smt.Term{a[1].(*smt.Term)}})
		return one(Iface{})
	}
	m["(*bytes.Buffer).WriteRune"] = func(x *Exec, s *State, a []Value, _ *ssa.Call) []Outcome {
		p := a[0].(Ptr)
		var outs []Outcome
		for _, e := range x.encodeRunes(s, []Value{a[1]}) {
			str := e.Val.(Str)
			outs = append(outs, Outcome{Cond: e.Cond, Val: Tuple{intConst(len(str.B)), Iface{}}, Then: func(cs *State) { bufAppend(cs, p, str) }})
		}
		return outs
	}
	m["(*bytes.Buffer).String"] = func(x *Exec, s *State, a []Value, _ *ssa.Call) []Outcome {
		p := a[0].(Ptr)
		if p.Obj == 0 {
			return one(StrOf("<nil>"))
		}
		content, off := bufLoad(s, p)
		return one(Str{B: content.B[off:]})
	}
	m["(*bytes.Buffer).Bytes"] = func(x *Exec, s *State, a []Value, _ *ssa.Call) []Outcome {
		content, off := bufLoad(s, a[0].(Ptr))
		rest := Str{B: content.B[off:]}
		return []Outcome{{Cond: smt.True, Val: lazyVal{func(cs *State) Value { return cs.newByteSlice(rest) }}}}
	}
	m["(*bytes.Buffer).Len"] = func(x *Exec, s *State, a []Value, _ *ssa.Call) []Outcome {
		content, off := bufLoad(s, a[0].(Ptr))
		return one(intConst(len(content.B) - off))
	}
	m["(*bytes.Buffer).Grow"] = func(x *Exec, s *State, a []Value, _ *ssa.Call) []Outcome {
		n, ok := constInt(a[1])
		if ok && n < 0 {
			return panicOutcome("bytes.Buffer.Grow: negative count")
		}
		return one(nil)
	}
	m["(*bytes.Buffer).Next"] = func(x *Exec, s *State, a []Value, _ *ssa.Call) []Outcome {
		p := a[0].(Ptr)
		n, ok := constInt(a[1])
		if !ok {
			unsupported("bytes.Buffer.Next with symbolic count")
		}
		content, off := bufLoad(s, p)
		if n > len(content.B)-off {
			n = len(content.B) - off
		}
		if n < 0 {
			return panicOutcome("slice bounds out of range in bytes.Buffer.Next")
		}
		data := Str{B: content.B[off : off+n]}
		return []Outcome{{Cond: smt.True, Val: lazyVal{func(cs *State) Value {
			bufStore(cs, p, content, off+n)
			return cs.newByteSlice(data)
		}}}}
	}
	m["(*bytes.Buffer).Reset"] = func(x *Exec, s *State, a []Value, _ *ssa.Call) []Outcome {
		bufStore(s, a[0].(Ptr), Str{}, 0)
		return one(nil)
	}
}

// ---------- strings.Fields / strings.TrimSpace on symbolic text ----------
// Exact for ASCII text (white space: TAB LF VT FF CR SPACE); paths on which a byte is
// >= 0x80 are cut (Unicode white space such as U+0085 and U+00A0 is not encoded).

const cutNonASCIISpace = "strings.Fields / strings.TrimSpace on symbolic text containing non-ASCII bytes (Unicode white space is not encoded)"

func (x *Exec) asciiSpace(b *smt.Term) *smt.Term {
	c := x.Ctx
	return c.Or(c.Eq(b, smt.Byte(' ')), c.And(c.Uge(b, smt.Byte(9)), c.Ule(b, smt.Byte(13))))
}

func (x *Exec) allASCIITerm(str Str) *smt.Term {
	c := x.Ctx
	r := smt.True
	for _, b := range str.B {
		r = c.And(r, c.Ult(b, smt.Byte(0x80)))
	}
	return r
}

func (x *Exec) trimSpaceSym(s *State, str Str) []Outcome {
	c := x.Ctx
	n := len(str.B)
	ascii := x.allASCIITerm(str)
	sp := make([]*smt.Term, n)
	for i, b := range str.B {
		sp[i] = x.asciiSpace(b)
	}
	var outs []Outcome
	if ascii != smt.True {
		outs = append(outs, Outcome{Cond: c.Not(ascii), Cut: cutNonASCIISpace})
	}
	all := ascii
	for i := 0; i < n; i++ {
		all = c.And(all, sp[i])
	}
	outs = append(outs, Outcome{Cond: all, Val: Str{}})
	for i := 0; i < n; i++ {
		lead := c.And(ascii, c.Not(sp[i]))
		for k := 0; k < i; k++ {
			lead = c.And(lead, sp[k])
		}
		if lead == smt.False {
			continue
		}
		for j := n; j > i; j-- {
			g := c.And(lead, c.Not(sp[j-1]))
			for k := j; k < n; k++ {
				g = c.And(g, sp[k])
			}
			if g == smt.False {
				continue
			}
			outs = append(outs, Outcome{Cond: g, Val: Str{B: str.B[i:j]}})
		}
	}
	return outs
}

func (x *Exec) fieldsSym(s *State, str Str) []Outcome {
	c := x.Ctx
	n := len(str.B)
	if n > 10 {
		unsupported("strings.Fields on a symbolic string of %d bytes", n)
	}
	ascii := x.allASCIITerm(str)
	var outs []Outcome
	if ascii != smt.True {
		outs = append(outs, Outcome{Cond: c.Not(ascii), Cut: cutNonASCIISpace})
	}
	sp := make([]*smt.Term, n)
	for i, b := range str.B {
		sp[i] = x.asciiSpace(b)
	}
	var rec func(i int, g *smt.Term, mask []bool)
	rec = func(i int, g *smt.Term, mask []bool) {
		if g == smt.False {
			return
		}
		if i == n {
			var el []Value
			for k := 0; k < n; {
				if mask[k] {
					k++
					continue
				}
				e := k
				for e < n && !mask[e] {
					e++
				}
				el = append(el, Str{B: str.B[k:e]})
				k = e
			}
			if len(el) == 0 {
				outs = append(outs, Outcome{Cond: g, Val: Slice{}})
				return
			}
			outs = append(outs, Outcome{Cond: g, Val: lazyVal{func(cs *State) Value { return cs.newSlice(el) }}})
			return
		}
		rec(i+1, c.And(g, sp[i]), append(append([]bool(nil), mask...), true))
		rec(i+1, c.And(g, c.Not(sp[i])), append(append([]bool(nil), mask...), false))
	}
	rec(0, ascii, nil)
	return outs
}

func (x *Exec) replacerReplace(s *State, pairs []string, in Str) []Outcome {
	c := x.Ctx
	n := len(in.B)
	var outs []Outcome
	var rec func(i int, out Str, g *smt.Term)
	rec = func(i int, out Str, g *smt.Term) {
		if g == smt.False {
			return
		}
		if i == n {
			outs = append(outs, Outcome{Cond: g, Val: out})
			return
		}
		if !g.IsConst() {
			if feas, _ := x.feasible(s, g); !feas {
				return
			}
		}
		none := smt.True
		for k := 0; k+1 < len(pairs); k += 2 {
			old, nw := pairs[k], pairs[k+1]
			if i+len(old) > n {
				continue
			}
			m := smt.True
			for j := 0; j < len(old); j++ {
				m = c.And(m, c.Eq(in.B[i+j], smt.Byte(old[j])))
			}
			hit := c.And(none, m)
			if hit != smt.False {
				rec(i+len(old), concatStr(out, StrOf(nw)), c.And(g, hit))
			}
			none = c.And(none, c.Not(m))
			if none == smt.False {
				break
			}
		}
		if none != smt.False {
			o2 := Str{B: append(append([]*smt.Term(nil), out.B...), in.B[i])}
			rec(i+1, o2, c.And(g, none))
		}
	}
	rec(0, Str{}, smt.True)
	if len(outs) > 4096 {
		unsupported("strings.Replacer.Replace: %d outcomes", len(outs))
	}
	return outs
}

// ---------- strings.Builder ----------
// A Builder {addr *Builder; buf []byte} is modelled with its buf field holding the
// content as a Str (the zero Builder has a nil slice there).

func sbLoad(s *State, p Ptr) Str {
	sv := s.load(p).(*StructVal)
	switch c := sv.F[1].(type) {
	case Str:
		return c
	case Slice:
		return s.bytesOf(c)
	}
	return Str{}
}

func sbAppend(s *State, p Ptr, str Str) {
	sv := s.load(p).(*StructVal)
	n := &StructVal{F: append([]Value(nil), sv.F...)}
	n.F[1] = concatStr(sbLoad(s, p), str)
	s.store(p, n)
}

func builderMethods(m map[string]Intrinsic) {
	m["(*strings.Builder).WriteString"] = func(x *Exec, s *State, a []Value, _ *ssa.Call) []Outcome {
		str := a[1].(Str)
		sbAppend(s, a[0].(Ptr), str)
		return one(Tuple{intConst(len(str.B)), Iface{}})
	}
	m["(*strings.Builder).Write"] = func(x *Exec, s *State, a []Value, _ *ssa.Call) []Outcome {
		str := s.bytesOf(a[1].(Slice))
		sbAppend(s, a[0].(Ptr), str)
		return one(Tuple{intConst(len(str.B)), Iface{}})
	}
	m["(*strings.Builder).WriteByte"] = func(x *Exec, s *State, a []Value, _ *ssa.Call) []Outcome {
		sbAppend(s, a[0].(Ptr), Str{B: []*smt.Term{a[1].(*smt.Term)}})
		return one(Iface{})
	}
	m["(*strings.Builder).WriteRune"] = func(x *Exec, s *State, a []Value, _ *ssa.Call) []Outcome {
		p := a[0].(Ptr)
		var outs []Outcome
		for _, e := range x.encodeRunes(s, []Value{a[1]}) {
			str := e.Val.(Str)
			outs = append(outs, Outcome{Cond: e.Cond, Val: Tuple{intConst(len(str.B)), Iface{}}, Then: func(cs *State) { sbAppend(cs, p, str) }})
		}
		return outs
	}
	m["(*strings.Builder).String"] = func(x *Exec, s *State, a []Value, _ *ssa.Call) []Outcome {
		return one(sbLoad(s, a[0].(Ptr)))
	}
	m["(*strings.Builder).Len"] = func(x *Exec, s *State, a []Value, _ *ssa.Call) []Outcome {
		return one(intConst(len(sbLoad(s, a[0].(Ptr)).B)))
	}
	m["(*strings.Builder).Grow"] = func(x *Exec, s *State, a []Value, _ *ssa.Call) []Outcome {
		n, ok := constInt(a[1])
		if ok && n < 0 {
			return panicOutcome("strings.Builder.Grow: negative count")
		}
		return one(nil)
	}
	m["(*strings.Builder).Reset"] = func(x *Exec, s *State, a []Value, _ *ssa.Call) []Outcome {
		p := a[0].(Ptr)
		sv := s.load(p).(*StructVal)
		n := &StructVal{F: append([]Value(nil), sv.F...)}
		n.F[1] = Str{}
		s.store(p, n)
		return one(nil)
	}
}

// ---------- sort.Strings ----------

func inSortStrings(x *Exec, s *State, a []Value, _ *ssa.Call) []Outcome {
	sl := a[0].(Slice)
	el := s.sliceElems(sl)
	n := len(el)
	if n <= 1 {
		return one(nil)
	}
	if n > 4 {
		unsupported("sort.Strings of more than 4 symbolic strings")
	}
	strs := make([]Str, n)
	for i, e := range el {
		strs[i] = e.(Str)
	}
	c := x.Ctx
	// enumerate permutations; condition: consecutive elements non-decreasing, ties broken by original index
	var outs []Outcome
	perm := make([]int, n)
	for i := range perm {
		perm[i] = i
	}
	var rec func(k int)
	rec = func(k int) {
		if k == n {
			cond := smt.True
			for i := 0; i+1 < n; i++ {
				p, q := perm[i], perm[i+1]
				var le *smt.Term
				if p < q {
					le = c.Not(x.strLess(strs[q], strs[p])) // p <= q
				} else {
					le = x.strLess(strs[p], strs[q]) // strictly, so that equal strings keep one order
				}
				cond = c.And(cond, le)
			}
			if cond == smt.False {
				return
			}
			order := append([]int(nil), perm...)
			outs = append(outs, Outcome{Cond: cond, Val: nil, Then: func(cs *State) {
				arr := cs.sliceArr(sl)
				na := &ArrayVal{E: append([]Value(nil), arr.E...)}
				for i, p := range order {
					na.E[sl.Off+i] = strs[p]
				}
				cs.store(Ptr{sl.Obj, sl.Path}, na)
			}})
			return
		}
		for i := k; i < n; i++ {
			perm[k], perm[i] = perm[i], perm[k]
			rec(k + 1)
			perm[k], perm[i] = perm[i], perm[k]
		}
	}
	rec(0)
	sort.SliceStable(outs, func(i, j int) bool { return false })
	return outs
}

// ---------- strconv.ParseFloat (stub with an alphabet contract) ----------

const floatAlphabet = "0123456789+-._eEpPxXiInNfFaAtTyYbBcCdD"

// parseFloatAccepted[L] lists every string of length L over the float alphabet that the
// real strconv.ParseFloat accepts (L <= 3): short arguments are modelled exactly.
var parseFloatAccepted = func() [4][]string {
	var acc [4][]string
	var rec func(prefix string, l int)
	rec = func(prefix string, l int) {
		if len(prefix) == l {
			if _, err := strconv.ParseFloat(prefix, 64); err == nil {
				acc[l] = append(acc[l], prefix)
			}
			return
		}
		for i := 0; i < len(floatAlphabet); i++ {
			rec(prefix+string(floatAlphabet[i]), l)
		}
	}
	for l := 1; l <= 3; l++ {
		rec("", l)
	}
	return acc
}()

func inParseFloat(x *Exec, s *State, a []Value, _ *ssa.Call) []Outcome {
	str := a[0].(Str)
	if cs, ok := str.Concrete(); ok {
		// concrete: use the real answer (validated natively)
		return one(Tuple{Opaque{"float"}, parseFloatErr(x, cs)})
	}
	c := x.Ctx
	errVal := func() Value { return Iface{T: x.W.ErrType, V: x.W.newExt("error", nil)} }
	if len(str.B) <= 3 {
		// exact: membership in the accepted set of that length (every accepted string lies
		// over the alphabet; checked at start-up by construction of the table)
		succ := smt.False
		for _, acc := range parseFloatAccepted[len(str.B)] {
			succ = c.Or(succ, x.strEq(str, StrOf(acc)))
		}
		x.noteAssume("strconv.ParseFloat: exact for arguments of <= 3 bytes (table of the real function over its alphabet)")
		return []Outcome{
			{Cond: succ, Val: Tuple{Opaque{"float"}, Iface{}}},
			{Cond: c.Not(succ), Val: Tuple{Opaque{"float"}, errVal()}},
		}
	}
	// longer arguments: nondeterministic result; err == nil only if the contract holds
	okAlpha := smt.True
	for _, b := range str.B {
		okAlpha = c.And(okAlpha, x.byteIn(b, []byte(floatAlphabet)))
	}
	x.parseFloatN++
	choice := x.Ctx.Var(fmt.Sprintf("parsefloat_ok_%d", x.parseFloatN), 8)
	// the stub is a function of its argument: equal strings give equal answers
	for _, prev := range x.pfCalls {
		if len(prev.str.B) != len(str.B) {
			continue
		}
		same := c.Implies(x.strEq(prev.str, str), c.Eq(prev.choice, choice))
		if same != smt.True {
			s.PC = append(s.PC, same)
			s.Model = nil
		}
	}
	x.pfCalls = append(x.pfCalls, pfCall{str, choice})
	succ := c.And(okAlpha, c.Eq(choice, smt.Byte(1)))
	x.noteAssume("strconv.ParseFloat (arguments > 3 bytes): err == nil only for strings over [" + floatAlphabet + "], otherwise an arbitrary function of its argument")
	return []Outcome{
		{Cond: succ, Val: Tuple{Opaque{"float"}, Iface{}}},
		{Cond: c.Not(succ), Val: Tuple{Opaque{"float"}, errVal()}},
	}
}

type pfCall struct {
	str    Str
	choice *smt.Term
}
