#!/usr/bin/env python3
"""Generates /verif/MANIFEST.json from the table below (kept in one place so that the
claimed / not-applicable lists cannot drift apart)."""
import json, os, sys

HERE = os.path.dirname(os.path.dirname(os.path.abspath(__file__)))

TECH = "bounded symbolic execution of the go/ssa form of the real functions (own SSA->SMT encoder), assertions decided by z3 5.1.0 (z3-new) over QF_BV for all inputs of the stated lengths; counterexamples replayed natively"
TRUST = ("x/tools go/ssa v0.29.0 as the semantics executed; the engine's interpreter and term simplifier; the listed intrinsics "
         "(regexp via regexp/syntax program simulation, UTF-8 codec, bytes/strings/fmt models), each cross-checked against the "
         "native build on every run; the byte-level reference written in the harness; z3 5.1.0 (z3-new on PATH). Nothing is claimed outside the stated bounds.")

claimed = {}
na = {}

def claim(pid, text, design, note=TRUST, technique=TECH):
    claimed[pid] = dict(text=text, design=design, note=note, technique=technique)

def notapp(pid, reason):
    na[pid] = reason

exec(open(os.path.join(HERE, "tools", "manifest_table.py")).read())

checks = []
for pid in sorted(claimed):
    c = claimed[pid]
    checks.append({
        "property_id": pid,
        "quick_cmd": "./checks/run.sh %s quick" % pid,
        "thorough_cmd": "./checks/run.sh %s thorough" % pid,
        "evidence_file": "/verif/evidence/%s.json" % pid,
        "replay_cmd_template": "./bin/symgo replay {path}",
        "engine": "symgo",
        "level_claimed": {"category": "model_checking", "text": c["text"], "design_ref": c["design"]},
        "level_note": c["note"],
        "technique": c["technique"],
    })

allp = [json.loads(l)["id"] for l in open(os.path.join(HERE, "properties.jsonl"))]
missing = [p for p in allp if p not in claimed and p not in na]
if missing:
    sys.exit("properties neither claimed nor not_applicable: %s" % missing)

m = {
    "version": 1,
    "setup_cmd": "cd /verif/engine && GOFLAGS=-mod=mod GOPROXY=off GOSUMDB=off GOTOOLCHAIN=local go build -o /verif/bin/symgo ./cmd/symgo",
    "hooks": {
        "guard": "verif",
        "enable": "none needed: harnesses are injected through go/packages and `go test -overlay` overlays (virtual files /repo/**/zz_verif_*.go); no hook commit exists in /repo",
        "baseline_off_cmd": "cd /repo && GOFLAGS=-mod=mod GOPROXY=off go test -vet=off -count=1 -timeout 25m ./...",
        "source_commits": [],
        "add_only": True,
    },
    "engines": [{
        "name": "symgo",
        "path": "/verif/engine",
        "serves_properties": sorted(claimed),
        "kind_free_text": "symbolic interpreter for go/ssa (concrete shape, symbolic content, merging at post-dominators) emitting QF_BV SMT-LIB2 to z3 -in; native replay of every counterexample through go test -overlay",
    }],
    "checks": checks,
    "not_applicable": [{"property_id": p, "reason": na[p]} for p in sorted(na)],
    "notes": "Exit codes: 0 holds within the bounds, 1 VIOLATION (natively replayed), 2 INCONCLUSIVE (unsupported construct, solver unknown, replay mismatch, vacuity witness missing). Known findings: /verif/known_findings.json. See DESIGN.md.",
}
json.dump(m, open(os.path.join(HERE, "MANIFEST.json"), "w"), indent=1)
print("MANIFEST.json: %d claimed, %d not applicable" % (len(claimed), len(na)))
