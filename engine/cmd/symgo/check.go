package main

import (
	"crypto/sha1"
	"encoding/hex"
	"encoding/json"
	"flag"
	"fmt"
	"go/ast"
	"go/parser"
	"go/token"
	"math/rand"
	"os"
	"path/filepath"
	"sort"
	"strconv"
	"strings"
	"sync"
	"time"

	"symgo/exec"
)

type ParamRange struct {
	Name   string
	Lo, Hi int
}

type HarnessSpec struct {
	Pkg           string
	Name          string
	Quick         []ParamRange
	Thorough      []ParamRange
	Filter        func(p map[string]int) bool
	Reach         []string // vReach tags that must be hit by at least one job (vacuity guard)
	ReachThorough []string // additional tags required in the thorough tier
	Desc          string
	MaxVisits     int
	Eager         bool // settle branch feasibility at every fork instead of lazily (smaller terms for tokenizer-heavy harnesses)
}

type ProbeSpec struct {
	Pkg      string
	Name     string
	NArgs    int
	Alphabet string // bytes used for generated arguments
	MaxLen   int
	N        int      // number of generated cases
	Extra    []string // hand-picked strings always included
	TestDir  string   // repo-relative dir whose *_test.go string literals are added
}

type Prop struct {
	ID         string
	Title      string
	Harnesses  []HarnessSpec
	Probes     []ProbeSpec
	Functions  []string
	Bounds     map[string]string // tier -> text
	Outside    []string
	Intrinsics []string
	Assumes    []string
	Cuts       []string
}

type KnownFinding struct {
	Property string `json:"property"`
	ID       string `json:"id"`
	Status   string `json:"status"` // "open" or "fixed"
	What     string `json:"what"`
	Witness  string `json:"witness,omitempty"`
	Commit   string `json:"commit,omitempty"`
}

type replayFile struct {
	Property string            `json:"property"`
	Harness  string            `json:"harness"`
	Pkg      string            `json:"pkg"`
	Params   map[string]int    `json:"params"`
	Inputs   map[string]string `json:"inputs"`
	Kind     string            `json:"kind"`
	Msg      string            `json:"msg"`
	Pos      string            `json:"pos"`
	Known    string            `json:"known,omitempty"`
	Reach    string            `json:"reach,omitempty"`
}

func enumParams(rs []ParamRange, filter func(map[string]int) bool) []map[string]int {
	out := []map[string]int{{}}
	for _, r := range rs {
		var next []map[string]int
		for _, m := range out {
			for v := r.Lo; v <= r.Hi; v++ {
				n := map[string]int{}
				for k, x := range m {
					n[k] = x
				}
				n[r.Name] = v
				next = append(next, n)
			}
		}
		out = next
	}
	if filter == nil {
		return out
	}
	var f []map[string]int
	for _, m := range out {
		if filter(m) {
			f = append(f, m)
		}
	}
	return f
}

func paramSize(m map[string]int) int {
	t := 0
	for _, v := range m {
		t += v
	}
	return t
}

func loadKnown(verif string) ([]KnownFinding, error) {
	data, err := os.ReadFile(filepath.Join(verif, "known_findings.json"))
	if err != nil {
		if os.IsNotExist(err) {
			return nil, nil
		}
		return nil, err
	}
	var k []KnownFinding
	if err := json.Unmarshal(data, &k); err != nil {
		return nil, err
	}
	return k, nil
}

func hexInputs(in map[string][]byte) map[string]string {
	out := map[string]string{}
	for k, v := range in {
		out[k] = hex.EncodeToString(v)
	}
	return out
}

func cmdCheck(args []string) int {
	fs := flag.NewFlagSet("check", flag.ExitOnError)
	repo := fs.String("repo", "/repo", "")
	verif := fs.String("verif", "/verif", "")
	propID := fs.String("prop", "", "")
	tier := fs.String("tier", os.Getenv("VERIF_TIER"), "")
	workers := fs.Int("workers", 16, "")
	only := fs.String("only", "", "run only harnesses whose name contains this")
	solver := fs.String("solver", "z3-new", "deciding solver: z3-new (5.1.0), z3 (4.8.12) or cvc5")
	fs.Parse(args)
	if *tier == "" {
		*tier = "quick"
	}
	seed := int64(1)
	if s := os.Getenv("VERIF_SEED"); s != "" {
		if v, err := strconv.ParseInt(s, 10, 64); err == nil {
			seed = v
		}
	}
	prop, ok := props[*propID]
	if !ok {
		fmt.Printf("INCONCLUSIVE property=%s reason=unknown property\n", *propID)
		return 2
	}
	t0 := time.Now()
	c := &checker{prop: prop, tier: *tier, seed: seed, repo: *repo, verif: *verif, workers: *workers, only: *only, solver: *solver}
	code := c.run()
	c.writeEvidence(time.Since(t0), code)
	return code
}

type checker struct {
	prop    *Prop
	tier    string
	seed    int64
	repo    string
	verif   string
	workers int
	only    string
	solver  string

	env        *env
	world      *exec.World
	results    []*exec.JobResult
	lines      []string
	reason     []string // reasons for inconclusive
	violations int
	knownHits  map[string]bool
	probePairs int
	replayed   int
	samples    []interface{}
	loadTime   time.Duration
	jobsN      int
	reachOK    map[string]bool
}

func (c *checker) say(format string, a ...interface{}) {
	l := fmt.Sprintf(format, a...)
	c.lines = append(c.lines, l)
	fmt.Println(l)
}

func (c *checker) inconclusive(format string, a ...interface{}) {
	r := fmt.Sprintf(format, a...)
	c.reason = append(c.reason, r)
	fmt.Printf("INCONCLUSIVE property=%s reason=%s\n", c.prop.ID, r)
}

func (c *checker) run() int {
	env, err := newEnv(c.repo, c.verif)
	if err != nil {
		c.inconclusive("environment: %v", err)
		return 2
	}
	c.env = env
	defer env.cleanup()
	tl := time.Now()
	w, err := env.load()
	c.loadTime = time.Since(tl)
	if err != nil {
		c.inconclusive("cannot load/encode the current tree: %v", firstLine(err.Error()))
		return 2
	}
	c.world = w
	known, err := loadKnown(c.verif)
	if err != nil {
		c.inconclusive("known_findings.json: %v", err)
		return 2
	}

	// ---- jobs ----
	type job struct {
		spec exec.JobSpec
		h    *HarnessSpec
	}
	var jobs []job
	for i := range c.prop.Harnesses {
		h := &c.prop.Harnesses[i]
		if c.only != "" && !strings.Contains(h.Name, c.only) {
			continue
		}
		rs := h.Quick
		if c.tier == "thorough" && h.Thorough != nil {
			rs = h.Thorough
		}
		for _, p := range enumParams(rs, h.Filter) {
			jobs = append(jobs, job{exec.JobSpec{Pkg: pkgPath(h.Pkg), Harness: h.Name, Params: p}, h})
		}
	}
	// biggest first for better packing
	sort.SliceStable(jobs, func(i, j int) bool { return paramSize(jobs[i].spec.Params) > paramSize(jobs[j].spec.Params) })
	c.jobsN = len(jobs)
	results := make([]*exec.JobResult, len(jobs))
	var wg sync.WaitGroup
	ch := make(chan int)
	for k := 0; k < c.workers; k++ {
		wg.Add(1)
		go func() {
			defer wg.Done()
			for i := range ch {
				results[i] = w.RunJob(jobs[i].spec, exec.JobOpts{Solver: c.solver, TimeoutMS: 60000, WallSecs: wallSecs(c.tier), MaxVisits: jobs[i].h.MaxVisits, Eager: (jobs[i].h.Eager || os.Getenv("SYMGO_EAGER") == "1") && os.Getenv("SYMGO_EAGER") != "0"})
			}
		}()
	}
	for i := range jobs {
		ch <- i
	}
	close(ch)
	wg.Wait()
	c.results = results

	// ---- collect ----
	type pending struct {
		rf   replayFile
		path string
	}
	var pend []pending
	reached := map[string]map[string]*replayFile{} // harness -> tag -> witness
	for i, r := range results {
		h := jobs[i].h
		if r.Err != "" {
			c.inconclusive("harness %s %v: %s", r.Spec.Harness, r.Spec.Params, firstLine(r.Err))
		}
		for _, e := range r.SolverErrs {
			c.inconclusive("solver error in %s %v: %s", r.Spec.Harness, r.Spec.Params, e)
		}
		if r.Undecided > 0 {
			c.inconclusive("harness %s %v: %d solver queries undecided (timeout/unknown)", r.Spec.Harness, r.Spec.Params, r.Undecided)
		}
		for _, f := range r.Findings {
			if f.Unknown {
				c.inconclusive("harness %s %v: obligation %q undecided", r.Spec.Harness, r.Spec.Params, f.Msg)
				continue
			}
			rf := replayFile{Property: c.prop.ID, Harness: r.Spec.Harness, Pkg: h.Pkg, Params: r.Spec.Params, Inputs: hexInputs(f.Inputs), Kind: f.Kind, Msg: f.Msg, Pos: f.Pos, Known: f.Known}
			pend = append(pend, pending{rf: rf})
		}
		for tag, in := range r.Reached {
			if reached[r.Spec.Harness] == nil {
				reached[r.Spec.Harness] = map[string]*replayFile{}
			}
			old := reached[r.Spec.Harness][tag]
			if old == nil || paramSize(r.Spec.Params) > paramSize(old.Params) {
				reached[r.Spec.Harness][tag] = &replayFile{Property: c.prop.ID, Harness: r.Spec.Harness, Pkg: h.Pkg, Params: r.Spec.Params, Inputs: hexInputs(in), Reach: tag}
			}
		}
	}
	// vacuity: required tags
	c.reachOK = map[string]bool{}
	for i := range c.prop.Harnesses {
		h := &c.prop.Harnesses[i]
		if c.only != "" && !strings.Contains(h.Name, c.only) {
			continue
		}
		tags := h.Reach
		if c.tier == "thorough" {
			tags = append(append([]string{}, tags...), h.ReachThorough...)
		}
		for _, tag := range tags {
			if reached[h.Name] == nil || reached[h.Name][tag] == nil {
				c.inconclusive("vacuity: harness %s never reaches %q", h.Name, tag)
				continue
			}
			pend = append(pend, pending{rf: *reached[h.Name][tag]})
		}
	}
	// limit the number of native replays per (harness, msg, known)
	seen := map[string]int{}
	var keep []pending
	for _, p := range pend {
		k := p.rf.Harness + "|" + p.rf.Msg + "|" + p.rf.Known + "|" + p.rf.Reach
		seen[k]++
		if seen[k] > 2 {
			continue
		}
		keep = append(keep, p)
	}
	pend = keep

	// ---- native side: probes + replays in one go test run per package ----
	replayDir := filepath.Join(c.verif, "replays")
	os.MkdirAll(replayDir, 0o755)
	byPkg := map[string][]int{}
	for i := range pend {
		data, _ := json.MarshalIndent(pend[i].rf, "", " ")
		sum := sha1.Sum(data)
		name := fmt.Sprintf("%s-%s.json", c.prop.ID, hex.EncodeToString(sum[:6]))
		if pend[i].rf.Reach != "" {
			name = "reach-" + name
		}
		pend[i].path = filepath.Join(replayDir, name)
		os.WriteFile(pend[i].path, data, 0o644)
		byPkg[pend[i].rf.Pkg] = append(byPkg[pend[i].rf.Pkg], i)
	}
	probesByPkg := map[string][]*ProbeSpec{}
	for i := range c.prop.Probes {
		p := &c.prop.Probes[i]
		probesByPkg[p.Pkg] = append(probesByPkg[p.Pkg], p)
	}
	pkgs := map[string]bool{}
	for p := range byPkg {
		pkgs[p] = true
	}
	for p := range probesByPkg {
		pkgs[p] = true
	}
	nativeOut := map[string]map[string]interface{}{} // replay path -> native outcome
	for pkg := range pkgs {
		// stage replays for this package in a scratch dir
		stage := filepath.Join(env.scratch, "replay-"+pkg)
		os.MkdirAll(stage, 0o755)
		for _, i := range byPkg[pkg] {
			data, _ := os.ReadFile(pend[i].path)
			os.WriteFile(filepath.Join(stage, filepath.Base(pend[i].path)), data, 0o644)
		}
		cases, probeIn := c.probeCorpus(probesByPkg[pkg])
		probeInPath := filepath.Join(env.scratch, "probe-in-"+pkg+".json")
		probeOutPath := filepath.Join(env.scratch, "probe-out-"+pkg+".json")
		replayOutPath := filepath.Join(env.scratch, "replay-out-"+pkg+".json")
		os.WriteFile(probeInPath, probeIn, 0o644)
		envv := []string{"VERIF_REPLAY_DIR=" + stage, "VERIF_REPLAY_OUT=" + replayOutPath}
		run := "TestVerifReplay"
		if len(cases) > 0 {
			envv = append(envv, "VERIF_PROBE_IN="+probeInPath, "VERIF_PROBE_OUT="+probeOutPath)
			run = "(TestVerifReplay|TestVerifProbe)"
		}
		out, err := env.goTest(pkg, run, envv)
		if err != nil {
			c.inconclusive("native build/run of the harness for package %s failed: %s", pkg, lastLines(out, 6))
			continue
		}
		// replays
		if data, err := os.ReadFile(replayOutPath); err == nil {
			var outs []map[string]interface{}
			json.Unmarshal(data, &outs)
			for _, o := range outs {
				if f, ok := o["file"].(string); ok {
					nativeOut[filepath.Base(f)] = o
				}
			}
		}
		// probes: compare with the engine in concrete mode
		if len(cases) > 0 {
			data, err := os.ReadFile(probeOutPath)
			if err != nil {
				c.inconclusive("translator validation: no native probe output for %s", pkg)
				continue
			}
			var natives []string
			json.Unmarshal(data, &natives)
			if len(natives) != len(cases) {
				c.inconclusive("translator validation: %d native results for %d cases", len(natives), len(cases))
				continue
			}
			bad := 0
			gots := make([]string, len(cases))
			errs := make([]error, len(cases))
			var pwg sync.WaitGroup
			pch := make(chan int)
			for k := 0; k < c.workers; k++ {
				pwg.Add(1)
				go func() {
					defer pwg.Done()
					for i := range pch {
						gots[i], errs[i] = w.RunProbe(pkgPath(pkg), cases[i].Probe, cases[i].args)
					}
				}()
			}
			for i := range cases {
				pch <- i
			}
			close(pch)
			pwg.Wait()
			for i, cs := range cases {
				got, err := gots[i], errs[i]
				if err != nil {
					c.inconclusive("translator validation: engine cannot run %s: %s", cs.Probe, firstLine(err.Error()))
					bad++
					break
				}
				if got == "CUT" {
					continue
				}
				want := natives[i]
				if strings.HasPrefix(want, "OK:") {
					b, _ := hex.DecodeString(want[3:])
					want = "OK:" + string(b)
				}
				if got != want {
					bad++
					if bad <= 3 {
						c.inconclusive("translator validation: %s(%q): engine %q, native %q", cs.Probe, cs.args, got, want)
					}
					continue
				}
				c.probePairs++
			}
		}
	}

	// ---- classify ----
	knownOpen := map[string]KnownFinding{}
	knownFixed := map[string]KnownFinding{}
	for _, k := range known {
		if k.Property != c.prop.ID {
			continue
		}
		if k.Status == "fixed" {
			knownFixed[k.ID] = k
		} else {
			knownOpen[k.ID] = k
		}
	}
	c.knownHits = map[string]bool{}
	for _, p := range pend {
		o := nativeOut[filepath.Base(p.path)]
		rel, _ := filepath.Rel(c.verif, p.path)
		if p.rf.Reach != "" {
			okNative := false
			if o != nil {
				if rs, ok := o["reached"].([]interface{}); ok {
					for _, r := range rs {
						if r == p.rf.Reach {
							okNative = true
						}
					}
				}
			}
			if !okNative {
				c.inconclusive("vacuity witness for %s/%s does not reach the tag natively (%s)", p.rf.Harness, p.rf.Reach, rel)
			} else {
				c.replayed++
				c.reachOK[p.rf.Harness+"/"+p.rf.Reach] = true
				c.samples = append(c.samples, map[string]interface{}{"kind": "reach-witness", "harness": p.rf.Harness, "tag": p.rf.Reach, "params": p.rf.Params, "inputs": p.rf.Inputs})
				os.Remove(p.path)
			}
			continue
		}
		reproduced, nativeKnown := false, ""
		if o != nil {
			if p.rf.Kind == "assert" {
				if fsl, ok := o["failures"].([]interface{}); ok {
					for _, f := range fsl {
						fm := f.(map[string]interface{})
						if fm["msg"] == p.rf.Msg {
							reproduced = true
							nativeKnown, _ = fm["known"].(string)
						}
					}
				}
			} else if _, ok := o["panic"]; ok {
				reproduced = true
			}
		}
		if !reproduced {
			c.inconclusive("counterexample for %q in %s does not reproduce natively (encoding or stub imprecise): %s native=%s", p.rf.Msg, p.rf.Harness, rel, jsonStr(o))
			continue
		}
		c.replayed++
		id := p.rf.Known
		if id != nativeKnown {
			c.inconclusive("known-finding class of %s differs between engine (%q) and native run (%q)", rel, id, nativeKnown)
			continue
		}
		if k, ok := knownOpen[id]; ok && id != "" {
			if !c.knownHits[id] {
				c.say("KNOWN-FINDING: property=%s %s [%s] witness=%s", c.prop.ID, k.What, id, rel)
				c.samples = append(c.samples, map[string]interface{}{"kind": "known-finding", "id": id, "harness": p.rf.Harness, "params": p.rf.Params, "inputs": p.rf.Inputs, "msg": p.rf.Msg})
			}
			c.knownHits[id] = true
			continue
		}
		c.violations++
		c.say("VIOLATION property=%s replay=%s", c.prop.ID, rel)
		c.say("  harness=%s params=%v failed=%q kind=%s at %s inputs=%s", p.rf.Harness, p.rf.Params, p.rf.Msg, p.rf.Kind, p.rf.Pos, jsonStr(decodeInputs(p.rf.Inputs)))
		if _, ok := knownFixed[id]; ok && id != "" {
			c.say("  (this is the previously fixed finding %s coming back)", id)
		}
	}
	for id, k := range knownOpen {
		if !c.knownHits[id] && c.only == "" {
			c.say("STALE-FINDING: property=%s %s [%s] no longer reproduces within the bound", c.prop.ID, k.What, id)
		}
	}
	if c.violations > 0 {
		return 1
	}
	if len(c.reason) > 0 {
		return 2
	}
	c.say("OK property=%s tier=%s jobs=%d obligations=%d", c.prop.ID, c.tier, c.jobsN, c.totalObl())
	return 0
}

func decodeInputs(in map[string]string) map[string]string {
	out := map[string]string{}
	for k, v := range in {
		b, _ := hex.DecodeString(v)
		out[k] = strconv.Quote(string(b))
	}
	return out
}

func (c *checker) totalObl() int {
	n := 0
	for _, r := range c.results {
		if r != nil {
			n += r.Obligations
		}
	}
	return n
}

func firstLine(s string) string {
	if i := strings.IndexByte(s, '\n'); i >= 0 {
		return s[:i]
	}
	return s
}

func lastLines(s string, n int) string {
	ls := strings.Split(strings.TrimSpace(s), "\n")
	if len(ls) > n {
		ls = ls[len(ls)-n:]
	}
	return strings.Join(ls, " | ")
}

// ---------- probes ----------

type probeCase struct {
	Probe string   `json:"probe"`
	Args  []string `json:"args"` // hex
	args  []string
}

func (c *checker) testStrings(dir string) []string {
	var out []string
	files, _ := filepath.Glob(filepath.Join(c.repo, dir, "*_test.go"))
	sort.Strings(files)
	fset := token.NewFileSet()
	seen := map[string]bool{}
	for _, f := range files {
		af, err := parser.ParseFile(fset, f, nil, 0)
		if err != nil {
			continue
		}
		ast.Inspect(af, func(n ast.Node) bool {
			if bl, ok := n.(*ast.BasicLit); ok && bl.Kind == token.STRING {
				if s, err := strconv.Unquote(bl.Value); err == nil && len(s) <= 40 && !seen[s] {
					seen[s] = true
					out = append(out, s)
				}
			}
			return true
		})
	}
	return out
}

func (c *checker) probeCorpus(ps []*ProbeSpec) ([]probeCase, []byte) {
	var cases []probeCase
	for _, p := range ps {
		rng := rand.New(rand.NewSource(c.seed*7919 + int64(len(p.Name))))
		pool := append([]string{}, p.Extra...)
		if p.TestDir != "" {
			ts := c.testStrings(p.TestDir)
			if len(ts) > 400 {
				rng.Shuffle(len(ts), func(i, j int) { ts[i], ts[j] = ts[j], ts[i] })
				ts = ts[:400]
			}
			for _, s := range ts {
				if len(s) <= p.MaxLen*3 {
					pool = append(pool, s)
				}
			}
		}
		gen := func() string {
			if len(pool) > 0 && rng.Intn(4) == 0 {
				return pool[rng.Intn(len(pool))]
			}
			n := rng.Intn(p.MaxLen + 1)
			b := make([]byte, n)
			for i := range b {
				if rng.Intn(12) == 0 {
					b[i] = byte(rng.Intn(256))
				} else {
					b[i] = p.Alphabet[rng.Intn(len(p.Alphabet))]
				}
			}
			return string(b)
		}
		add := func(args []string) {
			hx := make([]string, len(args))
			for i, a := range args {
				hx[i] = hex.EncodeToString([]byte(a))
			}
			cases = append(cases, probeCase{Probe: p.Name, Args: hx, args: args})
		}
		if p.NArgs == 1 {
			for _, s := range pool {
				add([]string{s})
			}
		}
		for i := 0; i < p.N; i++ {
			args := make([]string, p.NArgs)
			for j := range args {
				args[j] = gen()
			}
			add(args)
		}
	}
	data, _ := json.Marshal(cases)
	return cases, data
}

// ---------- replay command ----------

func cmdReplay(args []string) int {
	fs := flag.NewFlagSet("replay", flag.ExitOnError)
	repo := fs.String("repo", "/repo", "")
	verif := fs.String("verif", "/verif", "")
	fs.Parse(args)
	if fs.NArg() != 1 {
		usage()
	}
	path := fs.Arg(0)
	if !filepath.IsAbs(path) {
		path = filepath.Join(*verif, path)
	}
	data, err := os.ReadFile(path)
	if err != nil {
		fmt.Println("ERROR", err)
		return 2
	}
	var rf replayFile
	if err := json.Unmarshal(data, &rf); err != nil {
		fmt.Println("ERROR", err)
		return 2
	}
	env, err := newEnv(*repo, *verif)
	if err != nil {
		fmt.Println("ERROR", err)
		return 2
	}
	defer env.cleanup()
	outPath := filepath.Join(env.scratch, "out.json")
	out, err := env.goTest(rf.Pkg, "TestVerifReplay", []string{"VERIF_REPLAY=" + path, "VERIF_REPLAY_OUT=" + outPath})
	if err != nil {
		fmt.Println("native run failed:", lastLines(out, 10))
		return 2
	}
	res, _ := os.ReadFile(outPath)
	fmt.Printf("replay of %s (harness %s, params %v, inputs %s)\n%s\n", path, rf.Harness, rf.Params, jsonStr(decodeInputs(rf.Inputs)), res)
	var outs []map[string]interface{}
	json.Unmarshal(res, &outs)
	if len(outs) == 1 {
		if fsl, ok := outs[0]["failures"].([]interface{}); ok && len(fsl) > 0 {
			fmt.Printf("VIOLATION property=%s replay=%s\n", rf.Property, path)
			return 1
		}
		if _, ok := outs[0]["panic"]; ok {
			fmt.Printf("VIOLATION property=%s replay=%s\n", rf.Property, path)
			return 1
		}
	}
	fmt.Println("replay passes on this tree")
	return 0
}

// wallSecs is the wall-clock limit of one job: a job that exceeds it makes the check
// INCONCLUSIVE (it can only happen on a changed tree or with a bound that is too large).
func wallSecs(tier string) int {
	if tier == "thorough" {
		return 3600
	}
	return 900
}
