package safehtml

import "fmt"

// C16: CSSRule yields exactly one rule: selectors cannot inject blocks, rules or markup.

func refHasUnquotedURL(sel string) bool {
	// class predicate of the known finding: the selector contains "url(" (any case) whose
	// argument does not start with a quote, i.e. an unquoted url token, which the CSS
	// tokenizer reads with rules (no quotes, no '(', no inner white space) that
	// CSSRule's string stripping and bracket counting do not know
	hit := false
	for i := 3; i < len(sel); i++ {
		if sel[i] == '(' && refLowerByte(sel[i-3]) == 'u' && refLowerByte(sel[i-2]) == 'r' && refLowerByte(sel[i-1]) == 'l' {
			j := i + 1
			for j < len(sel) && cssWS(sel[j]) {
				j++
			}
			if j >= len(sel) || (sel[j] != '"' && sel[j] != '\'') {
				hit = true
			}
		}
	}
	return hit
}

func vHarness_C16_rule() {
	n := vParam("n")
	sel := vNondetString("sel", n)
	if vParam("ascii") == 1 {
		vASCII(sel)
	}
	style := "color:red;"
	if vParam("style") == 0 {
		style = ""
	}
	ss, err := CSSRule(sel, Style{style})
	if err != nil {
		vReach("rejected")
		vAssert(ss.String() == "", "an error comes with the zero StyleSheet")
		return
	}
	vReach("accepted")
	vAssert(ss.String() == sel+"{"+style+"}", "the result is exactly selector{style}")
	o := refCSSScan(sel)
	known := refHasUnquotedURL(sel)
	// the prelude must end between tokens with everything closed; then "{" opens the
	// rule's block, the (well-formed, constant) style fills it and "}" closes it
	endOK := o.state == cssNormal || o.state == cssSlash
	vAssertKnown(endOK && o.depth == 0 && !o.unbalanced, "the selector leaves a string, url, comment or bracket open (or closes one it did not open)", "C16-unquoted-url", known)
	vAssertKnown(!o.badString && !o.badURL, "the selector contains an ill-formed string or url token", "C16-unquoted-url", known)
	vAssertKnown(!o.braces && o.semis == 0 && !o.at && !o.comment && !o.lt, "the selector contributes a '{', '}', ';', '@', comment or '<' token", "C16-unquoted-url", known)
}

func vProbe_C16_rule(a []string) string {
	ss, err := CSSRule(a[0], Style{"color:red;"})
	if err != nil {
		return "err"
	}
	return "ok:" + ss.String()
}

func vProbe_C16_scan(a []string) string {
	o := refCSSScan(a[0])
	b := []byte{'0' + o.state, '0' + o.depth, '0' + o.semis, 'n', 'n', 'n', 'n', 'n', 'n', 'n', 'n'}
	flags := []bool{o.braces, o.at, o.comment, o.lt, o.badString, o.badURL, o.unbalanced, o.backslash}
	for i, f := range flags {
		if f {
			b[3+i] = 'y'
		}
	}
	return string(b)
}

// translator validation for the engine's model of fmt.Sprintf with a non-constant format
// (reached only when a change makes untrusted text part of a format string)
func vProbe_C16_fmt(args []string) string {
	return fmt.Sprintf(args[0], args[1]) + "|" + fmt.Sprintf(args[0]) + "|" + fmt.Sprintf(args[0], args[1], args[2])
}
