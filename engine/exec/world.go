package exec

import (
	"crypto/sha256"
	"fmt"
	"go/types"
	"os"
	"path/filepath"
	"reflect"
	"sort"
	"strings"
	"sync"
	"unicode"

	"golang.org/x/tools/go/packages"
	"golang.org/x/tools/go/ssa"
	"golang.org/x/tools/go/ssa/ssautil"

	"symgo/smt"
)

// World is everything shared (read-only) between the jobs of one check run.
type World struct {
	Prog       *ssa.Program
	Pkgs       map[string]*ssa.Package
	base       []Value
	nBase      int
	globals    map[*ssa.Global]int
	intrinsics map[string]Intrinsic
	ipdoms     map[*ssa.Function][]*ssa.BasicBlock
	mu         sync.Mutex
	ErrType    types.Type
	HarnessPkgs map[string]bool
	RepoDir    string
	FileHashes map[string]string
	InitInstrs int
	extID      int
	regexMu    sync.Mutex
	regexCache map[string]*compiledRx
	jsonAS     *ssa.Function
}

const RepoModule = "github.com/google/safehtml"

// Load builds SSA for the repository packages with the harness files overlaid.
// overlay maps absolute virtual paths under repoDir to file contents.
func Load(repoDir string, overlay map[string][]byte, patterns []string) (*World, error) {
	env := append(os.Environ(), "GOFLAGS=-mod=mod", "GOPROXY=off", "GOSUMDB=off", "GOTOOLCHAIN=local")
	cfg := &packages.Config{
		Mode:    packages.LoadAllSyntax,
		Dir:     repoDir,
		Env:     env,
		Overlay: overlay,
	}
	pkgs, err := packages.Load(cfg, patterns...)
	if err != nil {
		return nil, err
	}
	var errs []string
	packages.Visit(pkgs, nil, func(p *packages.Package) {
		for _, e := range p.Errors {
			errs = append(errs, e.Error())
		}
	})
	if len(errs) > 0 {
		return nil, fmt.Errorf("package load errors:\n%s", strings.Join(errs, "\n"))
	}
	prog, _ := ssautil.AllPackages(pkgs, ssa.InstantiateGenerics)
	prog.Build()
	w := &World{Prog: prog, Pkgs: map[string]*ssa.Package{}, globals: map[*ssa.Global]int{}, ipdoms: map[*ssa.Function][]*ssa.BasicBlock{},
		HarnessPkgs: map[string]bool{}, RepoDir: repoDir, FileHashes: map[string]string{}, regexCache: map[string]*compiledRx{}}
	for _, p := range prog.AllPackages() {
		w.Pkgs[p.Pkg.Path()] = p
	}
	w.intrinsics = builtinIntrinsics()
	if ep := w.Pkgs["errors"]; ep != nil {
		if tn := ep.Type("errorString"); tn != nil {
			w.ErrType = types.NewPointer(tn.Type())
		}
	}
	// hash the repository sources that were loaded
	packages.Visit(pkgs, nil, func(p *packages.Package) {
		if !strings.HasPrefix(p.PkgPath, RepoModule) {
			return
		}
		for _, f := range p.GoFiles {
			if _, virtual := overlay[f]; virtual {
				continue
			}
			if data, err := os.ReadFile(f); err == nil {
				rel, _ := filepath.Rel(repoDir, f)
				w.FileHashes[rel] = fmt.Sprintf("%x", sha256.Sum256(data))
			}
		}
	})
	if err := w.initialise(); err != nil {
		return nil, err
	}
	return w, nil
}

func (w *World) isHarnessAPI(fn *ssa.Function) bool {
	switch fn.Name() {
	case "vParam", "vNondetString", "vNondetBytes", "vNondetByte", "vNondetBool", "vNondetInt",
		"vAssume", "vAssert", "vAssertKnown", "vReach", "vPanics", "vLog":
		return fn.Pkg != nil && strings.HasPrefix(fn.Pkg.Pkg.Path(), RepoModule)
	}
	return false
}

func (w *World) harmlessDefer(name string) bool {
	switch name {
	case "(*sync.Mutex).Unlock", "(*sync.RWMutex).RUnlock", "(*sync.RWMutex).Unlock", "encoding/json.freeScanner":
		return true
	}
	return false
}

func (w *World) jsonAppendString() *ssa.Function {
	w.mu.Lock()
	defer w.mu.Unlock()
	if w.jsonAS != nil {
		return w.jsonAS
	}
	for fn := range ssautil.AllFunctions(w.Prog) {
		if o := fn.Origin(); o != nil && o.String() == "encoding/json.appendString" && strings.HasSuffix(fn.Name(), "[string]") {
			w.jsonAS = fn
			break
		}
	}
	return w.jsonAS
}

func (w *World) newExt(kind string, v interface{}) *Ext {
	w.mu.Lock()
	defer w.mu.Unlock()
	w.extID++
	return &Ext{Kind: kind, V: v, ID: w.extID}
}

// ---------- initialisation ----------

// packages whose init functions are executed concretely by the engine, in order.
func (w *World) initOrder() []*ssa.Package {
	var order []*ssa.Package
	seen := map[*types.Package]bool{}
	var visit func(p *types.Package)
	visit = func(p *types.Package) {
		if seen[p] {
			return
		}
		seen[p] = true
		for _, imp := range p.Imports() {
			visit(imp)
		}
		if sp := w.Prog.Package(p); sp != nil && w.runsInit(p.Path()) {
			order = append(order, sp)
		}
	}
	var roots []string
	for path := range w.Pkgs {
		if strings.HasPrefix(path, RepoModule) {
			roots = append(roots, path)
		}
	}
	sort.Strings(roots)
	for _, r := range roots {
		visit(w.Pkgs[r].Pkg)
	}
	return order
}

func (w *World) runsInit(path string) bool {
	if strings.HasPrefix(path, RepoModule) {
		return true
	}
	switch path {
	case "golang.org/x/text/unicode/rangetable", "html", "unicode/utf8", "encoding/json", "bytes", "strings", "strconv":
		return true
	}
	return false
}

func (w *World) initialise() error {
	// the init state owns a private heap that becomes the base afterwards
	w.nBase = 1
	w.base = []Value{nil}
	s := &State{W: w}
	// allocate every global of every package
	var pkgs []*ssa.Package
	for _, p := range w.Pkgs {
		pkgs = append(pkgs, p)
	}
	sort.Slice(pkgs, func(i, j int) bool { return pkgs[i].Pkg.Path() < pkgs[j].Pkg.Path() })
	for _, p := range pkgs {
		var names []string
		for n, m := range p.Members {
			if _, ok := m.(*ssa.Global); ok {
				names = append(names, n)
			}
		}
		sort.Strings(names)
		for _, n := range names {
			g := p.Members[n].(*ssa.Global)
			et := g.Type().Underlying().(*types.Pointer).Elem()
			var v Value
			if w.runsInit(p.Pkg.Path()) {
				v = zero(et)
			} else if iv, ok := w.importGlobal(s, p.Pkg.Path(), n, et); ok {
				v = iv
			} else {
				v = Opaque{"global " + p.Pkg.Path() + "." + n + " of a package whose initialiser is not executed"}
			}
			w.globals[g] = s.alloc(v)
		}
	}
	x := &Exec{W: w, Ctx: smt.NewCtx(), Concrete: true, MaxVisits: 1 << 30, MaxSteps: 1 << 40, feasCache: map[feasKey]feasRes{}}
	for _, p := range w.initOrder() {
		fn := p.Func("init")
		if fn == nil || fn.Blocks == nil {
			continue
		}
		s.Frames = nil
		x.pushFrame(s, fn, nil, nil, nil)
		var err error
		func() {
			defer func() {
				if r := recover(); r != nil {
					if u, ok := r.(Unsupported); ok {
						err = fmt.Errorf("init of %s: %s", p.Pkg.Path(), u.Msg)
						return
					}
					panic(r)
				}
			}()
			x.Run(s)
		}()
		if err != nil {
			return err
		}
		if len(x.Findings) > 0 {
			return fmt.Errorf("init of %s: %s: %s", p.Pkg.Path(), x.Findings[0].Kind, x.Findings[0].Msg)
		}
	}
	w.InitInstrs = x.Instrs
	// freeze: the init heap becomes the shared base
	if len(s.Over) != 0 {
		return fmt.Errorf("internal: overrides during init")
	}
	w.base = append([]Value{nil}, s.Heap...)
	w.nBase = len(w.base)
	return nil
}

// ---------- importing values of the engine's own standard library ----------

var reflectGlobals = map[string]interface{}{
	"unicode.Noncharacter_Code_Point": unicode.Noncharacter_Code_Point,
	"unicode.Cc":                      unicode.Cc,
	"unicode.White_Space":             unicode.White_Space,
	"unicode.Letter":                  unicode.Letter,
	"unicode.Digit":                   unicode.Digit,
	"unicode.Upper":                   unicode.Upper,
	"unicode.Lower":                   unicode.Lower,
	"unicode.Title":                   unicode.Title,
	"unicode.CaseRanges":              unicode.CaseRanges,
}

func (w *World) importGlobal(s *State, pkg, name string, t types.Type) (Value, bool) {
	v, ok := reflectGlobals[pkg+"."+name]
	if !ok {
		return nil, false
	}
	return w.importReflect(s, reflect.ValueOf(v), t), true
}

func (w *World) importReflect(s *State, rv reflect.Value, t types.Type) Value {
	switch u := t.Underlying().(type) {
	case *types.Basic:
		if isString(t) {
			return StrOf(rv.String())
		}
		wd, signed, ok := basicWidth(u.Kind())
		if !ok {
			unsupported("import of basic %s", t)
		}
		if wd == 0 {
			return smt.Bool(rv.Bool())
		}
		if signed {
			return smt.Const(wd, uint64(rv.Int()))
		}
		return smt.Const(wd, rv.Uint())
	case *types.Pointer:
		if rv.IsNil() {
			return Ptr{}
		}
		id := s.alloc(w.importReflect(s, rv.Elem(), u.Elem()))
		return Ptr{Obj: id}
	case *types.Struct:
		sv := &StructVal{F: make([]Value, u.NumFields())}
		for i := range sv.F {
			sv.F[i] = w.importReflect(s, rv.Field(i), u.Field(i).Type())
		}
		return sv
	case *types.Slice:
		if rv.IsNil() {
			return Slice{}
		}
		el := make([]Value, rv.Len())
		for i := range el {
			el[i] = w.importReflect(s, rv.Index(i), u.Elem())
		}
		return s.newSlice(el)
	case *types.Array:
		av := &ArrayVal{E: make([]Value, rv.Len())}
		for i := range av.E {
			av.E[i] = w.importReflect(s, rv.Index(i), u.Elem())
		}
		return av
	}
	unsupported("import of %s", t)
	return nil
}

// ---------- immediate post-dominators ----------

// ipdom returns the immediate post-dominator block of b, or nil if it is the
// function's (virtual) exit.
func (w *World) ipdom(b *ssa.BasicBlock) *ssa.BasicBlock {
	fn := b.Parent()
	w.mu.Lock()
	tab, ok := w.ipdoms[fn]
	if !ok {
		tab = computeIpdoms(fn)
		w.ipdoms[fn] = tab
	}
	w.mu.Unlock()
	return tab[b.Index]
}

func computeIpdoms(fn *ssa.Function) []*ssa.BasicBlock {
	n := len(fn.Blocks)
	exit := n
	// reverse graph: edges succ -> block, exit -> terminal blocks
	rsucc := make([][]int, n+1) // successors in the reversed graph
	rpred := make([][]int, n+1) // predecessors in the reversed graph (= original successors)
	for _, b := range fn.Blocks {
		if len(b.Succs) == 0 {
			rsucc[exit] = append(rsucc[exit], b.Index)
			rpred[b.Index] = append(rpred[b.Index], exit)
		}
		for _, sc := range b.Succs {
			rsucc[sc.Index] = append(rsucc[sc.Index], b.Index)
			rpred[b.Index] = append(rpred[b.Index], sc.Index)
		}
	}
	// postorder DFS from exit on the reversed graph
	order := make([]int, 0, n+1)
	seen := make([]bool, n+1)
	var dfs func(u int)
	dfs = func(u int) {
		seen[u] = true
		for _, v := range rsucc[u] {
			if !seen[v] {
				dfs(v)
			}
		}
		order = append(order, u)
	}
	dfs(exit)
	ponum := make([]int, n+1)
	for i := range ponum {
		ponum[i] = -1
	}
	for i, u := range order {
		ponum[u] = i
	}
	idom := make([]int, n+1)
	for i := range idom {
		idom[i] = -1
	}
	idom[exit] = exit
	intersect := func(a, b int) int {
		for a != b {
			for ponum[a] < ponum[b] {
				a = idom[a]
			}
			for ponum[b] < ponum[a] {
				b = idom[b]
			}
		}
		return a
	}
	changed := true
	for changed {
		changed = false
		for i := len(order) - 2; i >= 0; i-- { // reverse postorder, skipping exit
			u := order[i]
			nw := -1
			for _, p := range rpred[u] {
				if ponum[p] < 0 || idom[p] < 0 {
					continue
				}
				if nw < 0 {
					nw = p
				} else {
					nw = intersect(p, nw)
				}
			}
			if nw >= 0 && idom[u] != nw {
				idom[u] = nw
				changed = true
			}
		}
	}
	res := make([]*ssa.BasicBlock, n)
	for i := 0; i < n; i++ {
		if idom[i] >= 0 && idom[i] != exit {
			res[i] = fn.Blocks[idom[i]]
		}
	}
	return res
}
