package safehtml

import "unicode/utf8"

// C15: StyleFromProperties emits exactly the declared CSS declarations, nothing else.

var c15Fields = []string{"display", "background-color", "background-position", "background-repeat", "background-size", "color", "height", "width", "left", "right", "top", "bottom", "font-weight", "padding", "z-index"}

func c15Props(k int, v string) StyleProperties {
	var p StyleProperties
	switch k {
	case 0:
		p.Display = v
	case 1:
		p.BackgroundColor = v
	case 2:
		p.BackgroundPosition = v
	case 3:
		p.BackgroundRepeat = v
	case 4:
		p.BackgroundSize = v
	case 5:
		p.Color = v
	case 6:
		p.Height = v
	case 7:
		p.Width = v
	case 8:
		p.Left = v
	case 9:
		p.Right = v
	case 10:
		p.Top = v
	case 11:
		p.Bottom = v
	case 12:
		p.FontWeight = v
	case 13:
		p.Padding = v
	case 14:
		p.ZIndex = v
	}
	return p
}

// refPlainValueOK: the documented alphabet of plain property values - alphanumerics,
// space, tab and + - . ! # % _ ; '*' and '/' only when followed by one of those or by
// the end (so that "//", "/*", "*/" cannot occur).
func refSafeValueByte(b byte) bool {
	return refAlpha(b) || refDigit(b) || b == '+' || b == '-' || b == '.' || b == '!' || b == '#' || b == '%' || b == '_' || b == ' ' || b == '\t'
}

func refPlainValueOK(v string) bool {
	ok := true
	for i := 0; i < len(v); i++ {
		b := v[i]
		if b == '*' || b == '/' {
			if i+1 < len(v) && !refSafeValueByte(v[i+1]) {
				ok = false
			}
		} else if !refSafeValueByte(b) {
			ok = false
		}
	}
	return ok
}

func refEnumValueOK(v string) bool {
	ok := true
	for i := 0; i < len(v); i++ {
		ok = ok && (refAlpha(v[i]) || v[i] == '-')
	}
	return ok
}

// c15OneDeclaration: the reference tokenizer sees exactly one declaration "name: ... ;"
func c15OneDeclaration(out, name string) bool {
	o := refCSSScan(out)
	r := o.clean() && o.semis == 1 && int(o.lastSemi) == len(out)-1
	r = r && !o.braces && !o.at && !o.backslash && int(o.firstColon) == len(name)
	return r
}

func vHarness_C15_plain() {
	k, n := vParam("field"), vParam("n")
	v := vNondetString("v", n)
	if vParam("ascii") == 1 {
		vASCII(v)
	}
	out := StyleFromProperties(c15Props(k, v)).String()
	if n == 0 {
		vAssert(out == "", "an empty field emits nothing")
		return
	}
	name := c15Fields[k]
	vAssert(len(out) >= len(name)+2 && out[:len(name)+1] == name+":" && out[len(out)-1] == ';', "the chunk is name:value; with the documented name")
	body := out[len(name)+1 : len(out)-1]
	vAssert(body == v || body == InnocuousPropertyValue, "the value is emitted verbatim or replaced by the innocuous value")
	vAssert(c15OneDeclaration(out, name), "the CSS tokenizer sees exactly one declaration and ends in the initial state")
	if body == v && v != InnocuousPropertyValue {
		vReach("verbatim")
		if k == 0 {
			vAssert(refEnumValueOK(v), "display value outside [A-Za-z-] must be replaced")
		} else {
			comma := false
			for i := 0; i < len(v); i++ {
				comma = comma || v[i] == ','
			}
			vAssertKnown(refPlainValueOK(v), "plain value outside the documented alphabet must be replaced", "C15-comma", comma)
		}
	} else {
		vReach("replaced")
	}
}

// refCSSEscape: CSS string escaping as documented for cssEscapeString.
func refCSSEscape(s string) string {
	out := ""
	for i := 0; i < len(s); {
		r, w := utf8.DecodeRuneInString(s[i:])
		esc := r == '<' || r == '"' || r == '\\' || r <= 0x1F || r == 0x7F || (0x80 <= r && r <= 0x9F) || r == 0x2028 || r == 0x2029
		switch {
		case r == 0:
			out += "�"
		case r == utf8.RuneError && w == 1:
			out += "�" // WriteRune of the replacement character
		case esc:
			out += "\\" + refHex6(uint32(r))
		default:
			out += s[i : i+w]
		}
		i += w
	}
	return out
}

const refHexUpper = "0123456789ABCDEF"

func refHex6(v uint32) string {
	b := make([]byte, 6)
	for k := 0; k < 6; k++ {
		b[5-k] = refHexUpper[(v>>(4*uint(k)))&15]
	}
	return string(b)
}

func vHarness_C15_bgimage() {
	n1, n2 := vParam("n1"), vParam("n2")
	u1 := vNondetString("u1", n1)
	var p StyleProperties
	want := "background-image:url(\"" + refCSSEscape(URLSanitized(u1).String()) + "\")"
	p.BackgroundImageURLs = []string{u1}
	items := 1
	if n2 >= 0 {
		u2 := vNondetString("u2", n2)
		p.BackgroundImageURLs = []string{u1, u2}
		want += ", url(\"" + refCSSEscape(URLSanitized(u2).String()) + "\")"
		items = 2
	}
	want += ";"
	out := StyleFromProperties(p).String()
	vReach("ran")
	vAssert(out == want, "background-image is url(\"...\") of the CSS-string-escaped URLSanitized value of each item")
	o := refCSSScan(out)
	vAssert(o.clean() && o.semis == 1 && int(o.lastSemi) == len(out)-1 && !o.braces && !o.at && !o.backslash, "the CSS tokenizer sees exactly one declaration and ends in the initial state")
	vAssert(int(o.quotedURLs) == items && o.unquotedURLs == 0, "every item is one url(\"...\") function with a string")
}

func vHarness_C15_fontfamily() {
	n := vParam("n")
	f := vNondetString("f", n)
	if vParam("ascii") == 1 {
		vASCII(f)
	}
	var p StyleProperties
	p.FontFamily = []string{f, "serif"}
	out := StyleFromProperties(p).String()
	vReach("ran")
	o := refCSSScan(out)
	vAssert(o.clean() && o.semis == 1 && int(o.lastSemi) == len(out)-1 && !o.braces && !o.at && !o.backslash && int(o.firstColon) == len("font-family"), "the CSS tokenizer sees exactly one font-family declaration and ends in the initial state")
	vAssert(refHasPrefix(out, "font-family:") && len(out) >= 9 && out[len(out)-8:] == ", serif;", "the list keeps its items in order")
}

func vHarness_C15_two() {
	n := vParam("n")
	a := vNondetString("a", n)
	b := vNondetString("b", n)
	vASCII(a)
	vASCII(b)
	var p StyleProperties
	p.Color, p.Width = a, b
	out := StyleFromProperties(p).String()
	o := refCSSScan(out)
	want := uint8(0)
	if a != "" {
		want++
	}
	if b != "" {
		want++
	}
	vReach("ran")
	vAssert(o.clean() && o.semis == want && !o.braces && !o.at && !o.backslash && (len(out) == 0 || out[len(out)-1] == ';'), "two fields give exactly two declarations")
}

func vProbe_C15_plain(a []string) string {
	return StyleFromProperties(c15Props(int(a[0][0])%15, a[1])).String()
}
func vProbe_C15_bg(a []string) string {
	return StyleFromProperties(StyleProperties{BackgroundImageURLs: []string{a[0], a[1]}}).String()
}
func vProbe_C15_font(a []string) string {
	return StyleFromProperties(StyleProperties{FontFamily: []string{a[0], a[1]}}).String()
}
func vProbe_C15_refescape(a []string) string { return refCSSEscape(a[0]) }
func vProbe_C15_implescape(a []string) string { return cssEscapeString(a[0]) }
