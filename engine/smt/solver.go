package smt

import (
	"syscall"
	"bufio"
	"os"
	"fmt"
	"io"
	"os/exec"
	"strconv"
	"strings"
	"time"
)

type Result int

const (
	Unsat Result = iota
	Sat
	Unknown
)

func (r Result) String() string {
	switch r {
	case Unsat:
		return "unsat"
	case Sat:
		return "sat"
	}
	return "unknown"
}

// Solver drives one solver child process over stdin/stdout. Definitions of
// shared nodes are emitted once at assertion level 0; every query is
// push / assert* / check-sat / [get-value] / pop.
type Solver struct {
	Kind      string // z3, z3-new, cvc5
	cmd       *exec.Cmd
	in        *bufio.Writer
	inRaw     io.WriteCloser
	out       *bufio.Reader
	ctx       *Ctx
	defined   map[int]bool
	Queries   int
	SatN      int
	UnsatN    int
	UnknownN  int
	Time      time.Duration
	Errors    []string
	timeoutMS int
	Log       io.Writer // optional transcript
	Slow      []string
	TDefine, TWait, TModel time.Duration
	stack     []*Term   // assertions currently on the solver's assertion stack, one level each
	Incremental bool
	Assuming    bool
	indic       map[int]bool
}

// indicator returns the name of a Boolean constant equivalent to the Bool term t,
// asserted once at the base level, for use in check-sat-assuming.
func (s *Solver) indicator(t *Term) string {
	if t.Op == OpVar {
		return t.Name
	}
	name := "a" + strconv.Itoa(t.id)
	if s.indic == nil {
		s.indic = map[int]bool{}
	}
	if !s.indic[t.id] {
		s.indic[t.id] = true
		s.send("(declare-const " + name + " Bool)\n(assert (= " + name + " " + s.ref(t) + "))\n")
	}
	return name
}

func NewSolver(kind string, ctx *Ctx, timeoutMS int) (*Solver, error) {
	var cmd *exec.Cmd
	switch kind {
	case "z3":
		cmd = exec.Command("z3", "-in", "-smt2")
	case "z3-new":
		cmd = exec.Command("z3-new", "-in", "-smt2")
	case "cvc5":
		cmd = exec.Command("cvc5", "--incremental", "--lang=smt2", "--produce-models", fmt.Sprintf("--tlimit-per=%d", timeoutMS))
	default:
		return nil, fmt.Errorf("unknown solver %q", kind)
	}
	// the solver must not outlive the checker: a killed check (timeout) would otherwise
	// leave solver processes spinning on their last query
	cmd.SysProcAttr = &syscall.SysProcAttr{Pdeathsig: syscall.SIGKILL}
	inp, err := cmd.StdinPipe()
	if err != nil {
		return nil, err
	}
	outp, err := cmd.StdoutPipe()
	if err != nil {
		return nil, err
	}
	cmd.Stderr = nil
	if err := cmd.Start(); err != nil {
		return nil, err
	}
	s := &Solver{Kind: kind, cmd: cmd, in: bufio.NewWriterSize(inp, 1<<16), inRaw: inp, out: bufio.NewReaderSize(outp, 1<<16), ctx: ctx, defined: map[int]bool{}, timeoutMS: timeoutMS}
	// The encoding is pure QF_BV (no arrays, no quantifiers, no strings). Any "(error"
	// line from the solver makes the query inconclusive (see Check).
	if kind != "cvc5" {
		s.send(fmt.Sprintf("(set-option :timeout %d)\n", timeoutMS))
	}
	s.send("(set-option :produce-models true)\n")
	s.send("(set-option :global-declarations true)\n")
	s.send("(set-logic QF_BV)\n")
	s.Incremental = true
	s.Assuming = os.Getenv("SYMGO_ASSUME") != ""
	return s, nil
}

func (s *Solver) send(str string) {
	if s.Log != nil {
		io.WriteString(s.Log, str)
	}
	s.in.WriteString(str)
}

func (s *Solver) Close() {
	if s.cmd == nil {
		return
	}
	s.in.WriteString("(exit)\n")
	s.in.Flush()
	s.inRaw.Close()
	done := make(chan struct{})
	go func() { s.cmd.Wait(); close(done) }()
	select {
	case <-done:
	case <-time.After(2 * time.Second):
		s.cmd.Process.Kill()
	}
	s.cmd = nil
}

func sortName(w int) string {
	if w == 0 {
		return "Bool"
	}
	return fmt.Sprintf("(_ BitVec %d)", w)
}

func constLit(t *Term) string {
	if t.W == 0 {
		if t.Val == 1 {
			return "true"
		}
		return "false"
	}
	if t.W%4 == 0 {
		return fmt.Sprintf("#x%0*x", t.W/4, t.Val)
	}
	return fmt.Sprintf("#b%0*b", t.W, t.Val)
}

func (s *Solver) ref(t *Term) string {
	switch t.Op {
	case OpConst:
		return constLit(t)
	case OpVar:
		return t.Name
	}
	return "t" + strconv.Itoa(t.id)
}

// define emits declarations/definitions for t and everything below it.
func (s *Solver) define(t *Term) {
	if t.Op == OpConst || s.defined[t.id] {
		return
	}
	if t.Op == OpVar {
		s.defined[t.id] = true
		s.send(fmt.Sprintf("(declare-const %s %s)\n", t.Name, sortName(t.W)))
		return
	}
	for i := 0; i < t.N; i++ {
		s.define(t.A[i])
	}
	for _, cd := range t.Conds {
		s.define(cd)
	}
	s.defined[t.id] = true
	var b strings.Builder
	b.WriteString("(define-fun t")
	b.WriteString(strconv.Itoa(t.id))
	b.WriteString(" () ")
	b.WriteString(sortName(t.W))
	b.WriteString(" ")
	switch t.Op {
	case OpVS:
		n := len(t.Vals)
		for i := 0; i < n-1; i++ {
			fmt.Fprintf(&b, "(ite %s %s ", s.ref(t.Conds[i]), constLit(&Term{Op: OpConst, W: t.W, Val: t.Vals[i]}))
		}
		b.WriteString(constLit(&Term{Op: OpConst, W: t.W, Val: t.Vals[n-1]}))
		for i := 0; i < n-1; i++ {
			b.WriteString(")")
		}
	case OpExtract:
		fmt.Fprintf(&b, "((_ extract %d %d) %s)", t.Hi, t.Lo, s.ref(t.A[0]))
	case OpZext:
		fmt.Fprintf(&b, "((_ zero_extend %d) %s)", t.W-t.A[0].W, s.ref(t.A[0]))
	case OpSext:
		fmt.Fprintf(&b, "((_ sign_extend %d) %s)", t.W-t.A[0].W, s.ref(t.A[0]))
	default:
		b.WriteString("(")
		b.WriteString(opNames[t.Op])
		for i := 0; i < t.N; i++ {
			b.WriteString(" ")
			b.WriteString(s.ref(t.A[i]))
		}
		b.WriteString(")")
	}
	b.WriteString(")\n")
	s.send(b.String())
}

func (s *Solver) readLine() (string, error) {
	for {
		line, err := s.out.ReadString('\n')
		if err != nil {
			return "", err
		}
		line = strings.TrimSpace(line)
		if line == "" {
			continue
		}
		return line, nil
	}
}

// Check decides the conjunction of asserts. When the result is Sat and wantModel is
// true it returns the values of all variables of the context (indexed by VarIdx).
func (s *Solver) Check(asserts []*Term, wantModel bool) (Result, []uint64) {
	t0 := time.Now()
	defer func() {
		d := time.Since(t0)
		s.Time += d
		if d > 100*time.Millisecond && len(s.Slow) < 20 {
			s.Slow = append(s.Slow, fmt.Sprintf("q%d %v asserts=%d lastsize=%d stack=%d", s.Queries, d, len(asserts), dagSize(asserts[len(asserts)-1]), len(s.stack)))
		}
	}()
	s.Queries++
	nerr := len(s.Errors)
	for _, a := range asserts {
		if a.Op == OpConst && a.Val == 0 {
			s.UnsatN++
			return Unsat, nil
		}
	}
	td := time.Now()
	assumeCmd := ""
	for _, a := range asserts {
		s.define(a)
	}
	if wantModel {
		for _, v := range s.ctx.Vars {
			s.define(v)
		}
	}
	if s.Assuming {
		var b strings.Builder
		b.WriteString("(check-sat-assuming (")
		for _, a := range asserts {
			if a.Op == OpConst {
				continue
			}
			b.WriteString(s.indicator(a))
			b.WriteString(" ")
		}
		b.WriteString("))\n")
		assumeCmd = b.String()
	} else if s.Incremental {
		// keep the common prefix of the previous query on the assertion stack
		k := 0
		for k < len(s.stack) && k < len(asserts)-1 && s.stack[k] == asserts[k] {
			k++
		}
		if k < len(s.stack) {
			s.send(fmt.Sprintf("(pop %d)\n", len(s.stack)-k))
			s.stack = s.stack[:k]
		}
		for ; k < len(asserts)-1; k++ {
			s.send("(push 1)\n(assert " + s.ref(asserts[k]) + ")\n")
			s.stack = append(s.stack, asserts[k])
		}
		s.send("(push 1)\n")
		if len(asserts) > 0 {
			s.send("(assert " + s.ref(asserts[len(asserts)-1]) + ")\n")
		}
	} else {
		s.send("(push 1)\n")
		for _, a := range asserts {
			if a.Op == OpConst {
				continue
			}
			s.send("(assert " + s.ref(a) + ")\n")
		}
	}
	if s.Assuming {
		s.send(assumeCmd)
	} else {
		s.send("(check-sat)\n")
	}
	s.in.Flush()
	s.TDefine += time.Since(td)
	tw := time.Now()
	res := Unknown
	line, err := s.readLine()
	if err != nil {
		s.Errors = append(s.Errors, "solver read: "+err.Error())
		s.UnknownN++
		return Unknown, nil
	}
	for strings.HasPrefix(line, "(error") {
		s.Errors = append(s.Errors, line)
		line, err = s.readLine()
		if err != nil {
			s.UnknownN++
			return Unknown, nil
		}
		res = Unknown
	}
	s.TWait += time.Since(tw)
	tm := time.Now()
	defer func() { s.TModel += time.Since(tm) }()
	hadErr := len(s.Errors) > nerr
	switch line {
	case "sat":
		res = Sat
	case "unsat":
		res = Unsat
	default:
		res = Unknown
	}
	if hadErr {
		res = Unknown
	}
	var model []uint64
	if res == Sat && wantModel && len(s.ctx.Vars) > 0 {
		var b strings.Builder
		b.WriteString("(get-value (")
		for _, v := range s.ctx.Vars {
			b.WriteString(v.Name)
			b.WriteString(" ")
		}
		b.WriteString("))\n")
		s.send(b.String())
		s.in.Flush()
		model = make([]uint64, len(s.ctx.Vars))
		txt := s.readSexp()
		parseModel(txt, s.ctx, model)
	}
	if !s.Assuming {
		s.send("(pop 1)\n")
		s.in.Flush()
	}
	switch res {
	case Sat:
		s.SatN++
	case Unsat:
		s.UnsatN++
	default:
		s.UnknownN++
	}
	return res, model
}

// readSexp reads one balanced s-expression from the solver.
func (s *Solver) readSexp() string {
	var b strings.Builder
	depth := 0
	started := false
	for {
		r, _, err := s.out.ReadRune()
		if err != nil {
			return b.String()
		}
		if r == '(' {
			depth++
			started = true
		} else if r == ')' {
			depth--
		}
		if started {
			b.WriteRune(r)
		}
		if started && depth == 0 {
			return b.String()
		}
	}
}

func parseModel(txt string, ctx *Ctx, model []uint64) {
	// ((name #x..) (name #b..) (name true) ...)
	toks := strings.FieldsFunc(txt, func(r rune) bool { return r == '(' || r == ')' || r == ' ' || r == '\n' || r == '\t' || r == '\r' })
	for i := 0; i+1 < len(toks); i += 2 {
		v, ok := ctx.byName[toks[i]]
		if !ok {
			i--
			continue
		}
		val := toks[i+1]
		var x uint64
		switch {
		case strings.HasPrefix(val, "#x"):
			x, _ = strconv.ParseUint(val[2:], 16, 64)
		case strings.HasPrefix(val, "#b"):
			x, _ = strconv.ParseUint(val[2:], 2, 64)
		case val == "true":
			x = 1
		case val == "false":
			x = 0
		}
		model[v.VarIdx] = x
	}
}

func dagSize(t *Term) int {
	seen := map[*Term]bool{}
	var rec func(t *Term)
	rec = func(t *Term) {
		if t == nil || seen[t] {
			return
		}
		seen[t] = true
		for i := 0; i < t.N; i++ {
			rec(t.A[i])
		}
		for _, cd := range t.Conds {
			rec(cd)
		}
	}
	rec(t)
	return len(seen)
}
