package template

import (
	"github.com/google/safehtml"
	uc "github.com/google/safehtml/uncheckedconversions"
)

// C08 (reduced scope): the byte-level kernels of the template package never panic and
// always terminate. The obligations are the engine's own: every reachable panic, index
// or slice out of range, nil dereference and every loop visited more often than the
// unwinding bound is reported.

var c08Elements = []string{"", "div", "a", "link", "script", "style", "title", "textarea", "xmp"}
var c08Attrs = []string{"", "href", "title", "type", "rel", "on"}

func vHarness_C08_text() {
	st := state(vNondetByte("state"))
	dl := delim(vNondetByte("delim"))
	vAssume(st <= stateError && dl <= delimSpaceOrTagEnd)
	vAssume(dl == delimNone || st == stateAttr) // data invariant of context
	c := context{state: st, delim: dl, element: element{name: c08Elements[vParam("elem")]}, attr: attr{name: c08Attrs[vParam("attr")]}}
	s := vNondetString("s", vParam("n"))
	vASCII(s)
	c1, _ := c01Escape(c, s)
	vReach("ran")
	vAssert(c1.state <= stateError && c1.delim <= delimSpaceOrTagEnd, "escapeText yields a context outside the state/delimiter range")
	vAssert(st != stateError || c1.state == stateError, "the error state is not absorbing for escapeText")
}

// every sanitizer on every kind of argument, including nil and typed nil pointers
func vHarness_C08_sanitizers() {
	v := vNondetString("v", vParam("n"))
	var args []interface{}
	args = append(args, nil, v)
	h := uc.HTMLFromStringKnownToSatisfyTypeContract(v)
	sc := uc.ScriptFromStringKnownToSatisfyTypeContract(v)
	sy := uc.StyleFromStringKnownToSatisfyTypeContract(v)
	ss := uc.StyleSheetFromStringKnownToSatisfyTypeContract(v)
	u := uc.URLFromStringKnownToSatisfyTypeContract(v)
	tr := uc.TrustedResourceURLFromStringKnownToSatisfyTypeContract(v)
	id := uc.IdentifierFromStringKnownToSatisfyTypeContract(v)
	var nh *safehtml.HTML
	var nu *safehtml.URL
	ph := &h
	args = append(args, h, sc, sy, ss, u, tr, id, &h, &u, &tr, &ph, nh, nu, &nh)
	names := []string{sanitizeHTMLFuncName, sanitizeHTMLValOnlyFuncName, sanitizeRCDATAFuncName, sanitizeScriptFuncName, sanitizeStyleFuncName, sanitizeStyleSheetFuncName,
		sanitizeIdentifierFuncName, sanitizeURLFuncName, sanitizeTrustedResourceURLFuncName, sanitizeTrustedResourceURLOrURLFuncName, sanitizeURLSetFuncName,
		sanitizeAsyncEnumFuncName, sanitizeDirEnumFuncName, sanitizeLoadingEnumFuncName, sanitizeTargetEnumFuncName, sanitizeHTMLCommentFuncName,
		normalizeURLFuncName, queryEscapeURLFuncName, validateTrustedResourceURLSubstitutionFuncName, evalArgsFuncName}
	k := vParam("san")
	for _, a := range args {
		vApplyChain([]string{names[k]}, a)
	}
	vReach("ran")
}

// longer texts inside the four special elements (reaches "</title", "</script>" ...)
func vHarness_C08_special() {
	names := []string{"script", "style", "title", "textarea"}
	c := context{state: stateSpecialElementBody, element: element{name: names[vParam("elem")]}}
	s := vNondetString("s", vParam("n"))
	vASCII(s)
	c1, _ := c01Escape(c, s)
	vReach("ran")
	vAssert(c1.state <= stateError && c1.delim <= delimSpaceOrTagEnd, "escapeText yields a context outside the state/delimiter range")
}
