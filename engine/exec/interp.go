package exec

import (
	"time"
	"fmt"
	"runtime"
	"go/constant"
	"go/token"
	"go/types"
	"strings"

	"golang.org/x/tools/go/ssa"

	"symgo/smt"
)

// Outcome is one guarded result of an instruction or intrinsic. The conditions of
// the outcomes of one call are mutually exclusive and exhaustive under the path
// condition.
type Outcome struct {
	Cond  *smt.Term
	Val   Value
	Panic string           // non-empty: this outcome panics with that message
	Cut   string           // non-empty: this outcome lies outside the encoded fragment; the path is dropped and the reason recorded as an assumption
	Then  func(s *State)   // optional state update applied to the child
}

type stopPoint struct {
	depth int
	block *ssa.BasicBlock // nil: until the frame at depth returns
}

// Finding is a failed obligation with a model.
type Finding struct {
	Kind    string // assert, panic, bounds, unwind, ...
	Msg     string
	Pos     string
	Known   string // known-finding id claimed by the harness for this failure ("" = none)
	Model   []uint64
	Unknown bool // solver could not decide
}

// Exec runs one job (one harness with one parameter vector).
type Exec struct {
	W      *World
	Ctx    *smt.Ctx
	Solver *smt.Solver
	Params map[string]int

	Findings   []Finding
	Reached    map[string][]uint64 // vReach markers hit, with a model
	Inputs     []InputVar
	Paths      int
	StatesN    int
	Instrs     int
	Forks      int
	Merges     int
	MergeFails int
	Cut        int // paths cut by assumptions
	execStubN  int // calls of the text/template Execute stub so far (names its fresh inputs)
	Undecided  int
	Concrete   bool // concrete mode: no solver
	MaxVisits  int
	MaxSteps   int
	Deadline   time.Time // zero: none
	feasCache  map[feasKey]feasRes
	asciiCache map[*smt.Term]bool
	findingSeen map[string]int
	Assumes    []string
	Trace      bool
	ConcreteInputs map[string][]byte
	Obligations int
	Discharged  int
	parseFloatN int
	pfCalls     []pfCall
	QuerySites  map[string]int
	Lazy        bool
	LazyForks   int
	LazyDropped int
	BoxDecided  int
	PoolHits    int
	modelPool   [][]uint64
	onRootReturn func(v Value)
}

type InputVar struct {
	Name  string
	Terms []*smt.Term
}

type feasKey struct {
	pc   string
	cond *smt.Term
}
type feasRes struct {
	res   smt.Result
	model []uint64
}

func pcKey(pc []*smt.Term) string {
	var sb strings.Builder
	for _, t := range pc {
		fmt.Fprintf(&sb, "%d,", t.ID())
	}
	return sb.String()
}

// ---------- solver interface ----------

// feasible decides pc ∧ cond. It uses the state's model as a cheap witness.
func (x *Exec) feasible(s *State, cond *smt.Term) (bool, []uint64) {
	if cond.IsConst() {
		if cond.Val == 1 {
			return true, s.Model
		}
		return false, nil
	}
	if s.Model != nil {
		if smt.Eval(cond, s.Model, map[*smt.Term]uint64{}) == 1 {
			return true, s.Model
		}
	}
	if x.Concrete {
		return false, nil
	}
	// syntactic shortcut: the negation of cond is a conjunct of the path condition
	neg := x.Ctx.Not(cond)
	for _, p := range s.PC {
		if p == neg {
			return false, nil
		}
		if p.Op == smt.OpAnd && (p.A[0] == neg || p.A[1] == neg) {
			return false, nil
		}
	}
	// exact solver-free decision: cond depends on one input byte that the path
	// condition constrains only through unary conjuncts
	if v, set, ok := x.Ctx.Table(cond); ok {
		entangled := false
		box := set
		var flat []*smt.Term
		for _, p := range s.PC {
			flat = flattenAnd(p, flat)
		}
		for _, p := range flat {
			if pv, pset, pok := x.Ctx.Table(p); pok {
				if pv == v {
					box = box.And(pset)
				}
				continue
			}
			if smt.HasVar(x.Ctx.VarSet(p), v) {
				entangled = true
				break
			}
		}
		if !entangled {
			x.BoxDecided++
			if box.Empty() {
				return false, nil
			}
			if s.Model != nil {
				m := append([]uint64(nil), s.Model...)
				for len(m) <= v {
					m = append(m, 0)
				}
				m[v] = uint64(box.First())
				return true, m
			}
		}
	}
	k := feasKey{pcKey(s.PC), cond}
	if r, ok := x.feasCache[k]; ok {
		return r.res != smt.Unsat, r.model
	}
	if m := x.poolModel(s.PC, cond); m != nil {
		return true, m
	}
	if x.QuerySites != nil {
		var pcs [6]uintptr
		n := runtime.Callers(2, pcs[:])
		fr := runtime.CallersFrames(pcs[:n])
		site := ""
		for i := 0; i < 4; i++ {
			f, more := fr.Next()
			site += fmt.Sprintf("%s:%d < ", f.Function[strings.LastIndex(f.Function, ".")+1:], f.Line)
			if !more {
				break
			}
		}
		x.QuerySites[site]++
	}
	as := append(append([]*smt.Term(nil), s.PC...), cond)
	res, model := x.Solver.Check(as, true)
	x.feasCache[k] = feasRes{res, model}
	if res == smt.Sat {
		x.addModel(model)
	}
	if res == smt.Unknown {
		x.Undecided++
		return true, nil
	}
	return res == smt.Sat, model
}

// pcSat decides the satisfiability of the whole path condition of s: by unary boxes
// when that is conclusive, otherwise by the solver.
func (x *Exec) pcSat(s *State) (smt.Result, []uint64) {
	var flat []*smt.Term
	for _, p := range s.PC {
		flat = flattenAnd(p, flat)
	}
	boxes := map[int]smt.Set256{}
	nonUnary := false
	for _, p := range flat {
		if p.IsConst() {
			if p.Val == 0 {
				return smt.Unsat, nil
			}
			continue
		}
		if v, set, ok := x.Ctx.Table(p); ok {
			cur, has := boxes[v]
			if !has {
				cur = smt.FullSet
			}
			cur = cur.And(set)
			if cur.Empty() {
				x.BoxDecided++
				return smt.Unsat, nil
			}
			boxes[v] = cur
			continue
		}
		nonUnary = true
	}
	if !nonUnary {
		x.BoxDecided++
		m := make([]uint64, len(x.Ctx.Vars))
		for v, b := range boxes {
			m[v] = uint64(b.First())
		}
		return smt.Sat, m
	}
	if m := x.poolModel(flat, nil); m != nil {
		return smt.Sat, m
	}
	res, m := x.Solver.Check(s.PC, true)
	if res == smt.Sat {
		x.addModel(m)
	}
	return res, m
}

// poolModel looks for a previously found model that satisfies all of conj (and extra).
func (x *Exec) poolModel(conj []*smt.Term, extra *smt.Term) []uint64 {
	for i := len(x.modelPool) - 1; i >= 0; i-- {
		m := x.modelPool[i]
		memo := map[*smt.Term]uint64{}
		ok := true
		if extra != nil && smt.Eval(extra, m, memo) != 1 {
			continue
		}
		for _, p := range conj {
			if smt.Eval(p, m, memo) != 1 {
				ok = false
				break
			}
		}
		if ok {
			x.PoolHits++
			return m
		}
	}
	return nil
}

func (x *Exec) addModel(m []uint64) {
	if m == nil {
		return
	}
	if len(x.modelPool) >= 48 {
		copy(x.modelPool, x.modelPool[1:])
		x.modelPool = x.modelPool[:len(x.modelPool)-1]
	}
	x.modelPool = append(x.modelPool, m)
}

// cheapInfeasible reports true only when pc and cond is certainly unsatisfiable, using
// syntactic complement detection and the unary box domain (no solver).
func (x *Exec) cheapInfeasible(s *State, cond *smt.Term) bool {
	neg := x.Ctx.Not(cond)
	var flat []*smt.Term
	for _, p := range s.PC {
		flat = flattenAnd(p, flat)
	}
	for _, p := range flat {
		if p == neg {
			return true
		}
	}
	var cflat []*smt.Term
	cflat = flattenAnd(cond, cflat)
	for _, cc := range cflat {
		v, set, ok := x.Ctx.Table(cc)
		if !ok {
			continue
		}
		box := set
		for _, p := range flat {
			if pv, pset, pok := x.Ctx.Table(p); pok && pv == v {
				box = box.And(pset)
				if box.Empty() {
					x.BoxDecided++
					return true
				}
			}
		}
	}
	return false
}

func flattenAnd(t *smt.Term, out []*smt.Term) []*smt.Term {
	if t.Op == smt.OpAnd {
		out = flattenAnd(t.A[0], out)
		return flattenAnd(t.A[1], out)
	}
	return append(out, t)
}

// valid reports whether pc ⇒ cond; when not, it returns a counter-model.
func (x *Exec) valid(s *State, cond *smt.Term) (ok bool, model []uint64, unknown bool) {
	neg := x.Ctx.Not(cond)
	if neg.IsConst() && neg.Val == 0 {
		return true, nil, false
	}
	if s.Model != nil && smt.Eval(neg, s.Model, map[*smt.Term]uint64{}) == 1 {
		return false, s.Model, false
	}
	if x.Concrete {
		return true, nil, false
	}
	k := feasKey{pcKey(s.PC), neg}
	r, hit := x.feasCache[k]
	if !hit {
		as := append(append([]*smt.Term(nil), s.PC...), neg)
		res, m := x.Solver.Check(as, true)
		r = feasRes{res, m}
		x.feasCache[k] = r
	}
	switch r.res {
	case smt.Unsat:
		return true, nil, false
	case smt.Sat:
		return false, r.model, false
	}
	x.Undecided++
	return false, nil, true
}

func (x *Exec) addFinding(s *State, kind, msg, known string, model []uint64, unknown bool) {
	pos := ""
	if len(s.Frames) > 0 {
		f := s.top()
		if f.IP < len(f.Block.Instrs) {
			pos = x.W.Prog.Fset.Position(f.Block.Instrs[f.IP].Pos()).String()
		}
		if pos == "" || pos == "-" {
			pos = f.Fn.String()
		}
	}
	key := kind + "|" + msg + "|" + known
	if x.findingSeen == nil {
		x.findingSeen = map[string]int{}
	}
	x.findingSeen[key]++
	if x.findingSeen[key] > 3 {
		return
	}
	x.Findings = append(x.Findings, Finding{Kind: kind, Msg: msg, Pos: pos, Known: known, Model: model, Unknown: unknown})
}

// ---------- the main loop ----------

type stepResult int

const (
	stepCont stepResult = iota
	stepDead
	stepFork
)

// Run explores from s until every path ended. Completed paths are counted.
func (x *Exec) Run(s *State) {
	done := x.run(s, stopPoint{depth: 1, block: nil})
	x.Paths += len(done)
}

func (x *Exec) run(s0 *State, stop stopPoint) (arrived []*State) {
	work := []*State{s0}
	for len(work) > 0 {
		s := work[len(work)-1]
		work = work[:len(work)-1]
		for {
			if len(s.Frames) < stop.depth {
				arrived = append(arrived, s)
				break
			}
			f := s.top()
			if stop.block != nil && len(s.Frames) == stop.depth && f.Block == stop.block && f.AtStart {
				dropDead(f, f.Block)
				arrived = append(arrived, s)
				break
			}
			res, children, fstop := x.step(s)
			if res == stepCont {
				continue
			}
			if res == stepDead {
				break
			}
			// fork
			x.Forks++
			var all []*State
			for _, c := range children {
				c.Depth++
				all = append(all, x.run(c, fstop)...)
			}
			merged := x.mergeAll(all)
			if len(merged) > 1 && !x.Concrete {
				// shape split: settle the feasibility of lazily explored arms now, before
				// they multiply
				kept := merged[:0]
				for _, m := range merged {
					if m.Model == nil {
						res, mod := x.pcSat(m)
						if res == smt.Unsat {
							x.LazyDropped++
							continue
						}
						if res == smt.Sat {
							m.Model = mod
						} else {
							x.Undecided++
						}
					}
					kept = append(kept, m)
				}
				merged = kept
			}
			for _, m := range merged {
				m.Depth--
			}
			// continue each merged state under our own stop (LIFO keeps order stable)
			for i := len(merged) - 1; i >= 0; i-- {
				work = append(work, merged[i])
			}
			break
		}
	}
	return arrived
}

func (x *Exec) mergeAll(states []*State) []*State {
	if len(states) <= 1 {
		return states
	}
	for _, s := range states {
		s.gc()
	}
	var out []*State
	for _, s := range states {
		mergedIn := false
		for i, o := range out {
			if m := tryMerge(x.Ctx, o, s); m != nil {
				out[i] = m
				mergedIn = true
				x.Merges++
				break
			}
		}
		if !mergedIn {
			out = append(out, s)
		}
	}
	if len(out) > 1 {
		x.MergeFails += len(out) - 1
	}
	return out
}

// forkStop computes the stop point for a fork happening in the top frame.
func (x *Exec) forkStop(s *State) stopPoint {
	f := s.top()
	p := x.W.ipdom(f.Block)
	return stopPoint{depth: len(s.Frames), block: p}
}

// ---------- operand access ----------

func (x *Exec) constValue(c *ssa.Const) Value {
	t := c.Type()
	if c.Value == nil {
		return zero(t)
	}
	if isString(t) {
		return StrOf(constant.StringVal(c.Value))
	}
	if w, _, ok := scalarInfo(t); ok {
		if w == 0 {
			return smt.Bool(constant.BoolVal(c.Value))
		}
		if c.Value.Kind() == constant.Int {
			if i, exact := constant.Int64Val(c.Value); exact {
				return smt.Const(w, uint64(i))
			}
			u, _ := constant.Uint64Val(c.Value)
			return smt.Const(w, u)
		}
		// rune or float constant converted to int
		if i, exact := constant.Int64Val(constant.ToInt(c.Value)); exact {
			return smt.Const(w, uint64(i))
		}
	}
	if isFloat(t) {
		return Opaque{"float constant"}
	}
	if _, ok := t.Underlying().(*types.Interface); ok {
		return Iface{}
	}
	unsupported("constant %v of type %v", c, t)
	return nil
}

func (x *Exec) get(f *Frame, v ssa.Value) Value {
	switch v := v.(type) {
	case *ssa.Const:
		return x.constValue(v)
	case *ssa.Global:
		id, ok := x.W.globals[v]
		if !ok {
			unsupported("global %s has no object", v)
		}
		return Ptr{Obj: id}
	case *ssa.Function:
		return v
	case *ssa.Builtin:
		return v
	}
	r, ok := f.Regs[v]
	if !ok {
		unsupported("internal: register %s (%T) undefined in %s", v.Name(), v, f.Fn)
	}
	return r
}

func (x *Exec) term(f *Frame, v ssa.Value) *smt.Term {
	val := x.get(f, v)
	t, ok := val.(*smt.Term)
	if !ok {
		unsupported("expected scalar for %s in %s, got %T (%v)", v.Name(), f.Fn, val, val)
	}
	return t
}

// ---------- control transfer ----------

func (x *Exec) enterBlock(s *State, b *ssa.BasicBlock) bool {
	f := s.top()
	prev := f.Block
	// phis, evaluated simultaneously
	var edge int = -1
	for i, p := range b.Preds {
		if p == prev {
			edge = i
			break
		}
	}
	n := 0
	var vals []Value
	for _, ins := range b.Instrs {
		phi, ok := ins.(*ssa.Phi)
		if !ok {
			break
		}
		if edge < 0 {
			unsupported("internal: phi without incoming edge")
		}
		vals = append(vals, x.get(f, phi.Edges[edge]))
		n++
	}
	for i := 0; i < n; i++ {
		f.Regs[b.Instrs[i].(*ssa.Phi)] = vals[i]
	}
	f.Prev, f.Block, f.IP, f.AtStart = prev, b, n, true
	f.Visits[b]++
	if f.Visits[b] > x.MaxVisits {
		x.unwindFailure(s, b)
		return false
	}
	return true
}

func (x *Exec) unwindFailure(s *State, b *ssa.BasicBlock) {
	if s.Model == nil && !x.Concrete {
		res, m := x.pcSat(s)
		if res == smt.Unsat {
			return // an infeasible path explored lazily
		}
		if res == smt.Sat {
			s.Model = m
		}
	}
	x.addFinding(s, "unwind", fmt.Sprintf("block %d of %s visited more than %d times", b.Index, b.Parent(), x.MaxVisits), "", s.Model, s.Model == nil)
}

// dropDead removes registers of the top frame that cannot be live at block p.
func dropDead(f *Frame, p *ssa.BasicBlock) {
	for v := range f.Regs {
		ins, ok := v.(ssa.Instruction)
		if !ok {
			continue // parameters, free variables
		}
		b := ins.Block()
		if b == p {
			if _, isPhi := v.(*ssa.Phi); isPhi {
				continue
			}
			delete(f.Regs, v)
			continue
		}
		if !b.Dominates(p) {
			delete(f.Regs, v)
		}
	}
}

func (x *Exec) pushFrame(s *State, fn *ssa.Function, args []Value, env []Value, call ssa.CallInstruction) *Frame {
	if fn.Blocks == nil {
		unsupported("call of external function %s without intrinsic", fn)
	}
	if len(s.Frames) > 200 {
		unsupported("call depth exceeds 200 in %s", fn)
	}
	nf := &Frame{Fn: fn, Regs: make(map[ssa.Value]Value, 16), Visits: map[*ssa.BasicBlock]int{}, Call: call}
	if len(args) != len(fn.Params) {
		unsupported("internal: arity mismatch calling %s: %d args, %d params", fn, len(args), len(fn.Params))
	}
	for i, p := range fn.Params {
		nf.Regs[p] = args[i]
	}
	for i, fv := range fn.FreeVars {
		nf.Regs[fv] = env[i]
	}
	nf.Block = fn.Blocks[0]
	nf.IP = 0
	nf.AtStart = true
	nf.Visits[nf.Block] = 1
	s.Frames = append(s.Frames, nf)
	return nf
}

// popFrame returns from the top frame with result.
func (x *Exec) popFrame(s *State, result Value) {
	f := s.top()
	if f.MemoKey != "" {
		if s.Memo == nil {
			s.Memo = map[string]Value{}
		}
		s.Memo[f.MemoKey] = result
	}
	s.Frames = s.Frames[:len(s.Frames)-1]
	if len(s.Frames) == 0 {
		if x.onRootReturn != nil {
			x.onRootReturn(result)
		}
		return
	}
	caller := s.top()
	if f.Catch {
		result = smt.False // vPanics: the closure returned normally
	}
	if caller.Nat != nil {
		caller.NatRet, caller.NatHasRet = result, true
		return
	}
	if f.Call != nil {
		if v, ok := f.Call.(ssa.Value); ok {
			caller.Regs[v] = result
		}
	}
	caller.IP++
	caller.AtStart = false
}

// raisePanic unwinds to the nearest vPanics frame; without one the panic is a finding
// and the path ends. It returns true when execution continues.
// unlockDeferred runs a deferred Mutex.Unlock; it returns a panic message if the mutex is not held.
func (x *Exec) unlockDeferred(s *State, p Ptr) string {
	sv, ok := s.load(p).(*StructVal)
	if !ok || len(sv.F) == 0 {
		return ""
	}
	st, ok := sv.F[0].(*smt.Term)
	if !ok {
		return ""
	}
	if !st.IsConst() {
		// merged paths disagree on whether the mutex is held: the deferred Unlock releases it
		// (an unlock of a free mutex on one of the merged paths is not reported here)
		n := &StructVal{F: append([]Value(nil), sv.F...)}
		n.F[0] = smt.Const(st.W, 0)
		s.store(p, n)
		return ""
	}
	if st.Val == 0 {
		return "sync: unlock of unlocked mutex"
	}
	n := &StructVal{F: append([]Value(nil), sv.F...)}
	n.F[0] = smt.Const(st.W, 0)
	s.store(p, n)
	return ""
}

func (x *Exec) raisePanic(s *State, msg string) bool {
	for i := len(s.Frames) - 1; i >= 0; i-- {
		// deferred unlocks of the frames the panic unwinds
		for k := len(s.Frames[i].Defers) - 1; k >= 0; k-- {
			x.unlockDeferred(s, s.Frames[i].Defers[k])
		}
		s.Frames[i].Defers = nil
		if s.Frames[i].Catch {
			call := s.Frames[i].Call
			s.Frames = s.Frames[:i]
			caller := s.top()
			if v, ok := call.(ssa.Value); ok {
				caller.Regs[v] = smt.True
			}
			caller.IP++
			caller.AtStart = false
			return true
		}
	}
	model := s.Model
	unknown := false
	if model == nil && !x.Concrete {
		res, m := x.pcSat(s)
		if res == smt.Unsat {
			return false
		}
		model, unknown = m, res == smt.Unknown
	}
	x.addFinding(s, "panic", msg, "", model, unknown)
	return false
}

// ---------- forking ----------

// forkOn splits s on the outcomes and returns the feasible children. assign puts an
// outcome's value where it belongs and advances the child.
func (x *Exec) forkOn(s *State, outs []Outcome, assign func(c *State, o Outcome) bool) (stepResult, []*State, stopPoint) {
	return x.forkOnL(s, outs, assign, false)
}

// forkOnL with lazy == true does not ask the solver whether each outcome is feasible:
// every outcome that is not syntactically false is explored and carries its condition
// in the path condition, so obligations met on an infeasible arm are vacuously
// discharged. Used for branches that rejoin inside the same function.
func (x *Exec) forkOnL(s *State, outs []Outcome, assign func(c *State, o Outcome) bool, lazy bool) (stepResult, []*State, stopPoint) {
	var feas []Outcome
	var models [][]uint64
	if len(outs) > 1 && !x.Concrete {
		// outcomes are mutually exclusive: one that is already a conjunct of the path
		// condition excludes all others
		for _, o := range outs {
			if o.Cond.IsConst() {
				continue
			}
			for _, p := range s.PC {
				if p == o.Cond {
					outs = []Outcome{o}
					break
				}
			}
			if len(outs) == 1 {
				break
			}
		}
		if len(outs) == 1 {
			feas = append(feas, outs[0])
			models = append(models, s.Model)
			outs = nil
		}
	}
	for _, o := range outs {
		if lazy && !x.Concrete {
			if o.Cond == smt.False || x.cheapInfeasible(s, o.Cond) {
				continue
			}
			var m []uint64
			if s.Model != nil && smt.Eval(o.Cond, s.Model, map[*smt.Term]uint64{}) == 1 {
				m = s.Model
			}
			feas = append(feas, o)
			models = append(models, m)
			x.LazyForks++
			continue
		}
		ok, m := x.feasible(s, o.Cond)
		if ok {
			feas = append(feas, o)
			models = append(models, m)
		}
	}
	if len(feas) == 0 {
		// can only happen when the path condition itself was of unknown status
		return stepDead, nil, stopPoint{}
	}
	if len(feas) == 1 {
		o := feas[0]
		if !o.Cond.IsConst() {
			// implied by the path condition; no need to record it
		}
		if o.Cut != "" {
			x.Cut++
			x.noteAssume("cut: " + o.Cut)
			return stepDead, nil, stopPoint{}
		}
		if o.Then != nil {
			o.Then(s)
		}
		if o.Panic != "" {
			if x.raisePanic(s, o.Panic) {
				return stepCont, nil, stopPoint{}
			}
			return stepDead, nil, stopPoint{}
		}
		if !assign(s, o) {
			return stepDead, nil, stopPoint{}
		}
		return stepCont, nil, stopPoint{}
	}
	fstop := x.forkStop(s)
	var children []*State
	for i, o := range feas {
		if o.Cut != "" {
			x.Cut++
			x.noteAssume("cut: " + o.Cut)
			if i == len(feas)-1 && len(children) == 0 {
				return stepDead, nil, stopPoint{}
			}
			continue
		}
		var c *State
		if i == len(feas)-1 {
			c = s
		} else {
			c = s.clone()
		}
		c.PC = append(c.PC, o.Cond)
		c.Model = models[i]
		if o.Then != nil {
			o.Then(c)
		}
		if o.Panic != "" {
			if !x.raisePanic(c, o.Panic) {
				continue
			}
			children = append(children, c)
			continue
		}
		if !assign(c, o) {
			continue
		}
		children = append(children, c)
	}
	x.StatesN += len(children)
	if len(children) == 0 {
		return stepDead, nil, stopPoint{}
	}
	return stepFork, children, fstop
}

// setResult stores the value of the current instruction and advances.
func setResult(s *State, v Value) {
	f := s.top()
	ins := f.Block.Instrs[f.IP]
	if val, ok := ins.(ssa.Value); ok {
		f.Regs[val] = v
	}
	f.IP++
	f.AtStart = false
}

// concretize enumerates the feasible values of t (at most limit).
func (x *Exec) concretize(s *State, t *smt.Term, limit int) []uint64 {
	return x.concretizeUnder(s, t, smt.True, limit)
}

func (x *Exec) concretizeUnder(s *State, t *smt.Term, under *smt.Term, limit int) []uint64 {
	if t.IsConst() {
		return []uint64{t.Val}
	}
	if x.Concrete {
		unsupported("internal: symbolic value in concrete mode")
	}
	var vals []uint64
	extra := []*smt.Term{under}
	for {
		var v uint64
		found := false
		if len(vals) == 0 && s.Model != nil && smt.Eval(under, s.Model, map[*smt.Term]uint64{}) == 1 {
			v, found = smt.Eval(t, s.Model, map[*smt.Term]uint64{}), true
		} else {
			as := append(append([]*smt.Term(nil), s.PC...), extra...)
			res, m := x.Solver.Check(as, true)
			if res == smt.Unknown {
				unsupported("solver unknown while concretizing")
			}
			if res == smt.Sat {
				v, found = smt.Eval(t, m, map[*smt.Term]uint64{}), true
			}
		}
		if !found {
			return vals
		}
		vals = append(vals, v)
		if len(vals) > limit {
			unsupported("more than %d feasible values for a shape-determining quantity", limit)
		}
		extra = append(extra, x.Ctx.Ne(t, smt.Const(t.W, v)))
	}
}

// ---------- one instruction ----------

func (x *Exec) step(s *State) (stepResult, []*State, stopPoint) {
	f := s.top()
	if f.Nat != nil {
		s.Steps++
		f.Nat.Resume(x, s, f)
		return stepCont, nil, stopPoint{}
	}
	if f.IP >= len(f.Block.Instrs) {
		unsupported("internal: fell off block in %s", f.Fn)
	}
	ins := f.Block.Instrs[f.IP]
	s.Steps++
	x.Instrs++
	if x.Instrs&0x3fff == 0 && !x.Deadline.IsZero() && time.Now().After(x.Deadline) {
		unsupported("wall-clock limit of the job exceeded (%d instructions, %d states so far): bound too large for this tree", x.Instrs, x.StatesN)
	}
	if s.Steps > x.MaxSteps {
		x.addFinding(s, "unwind", fmt.Sprintf("path exceeds %d instructions", x.MaxSteps), "", s.Model, s.Model == nil)
		return stepDead, nil, stopPoint{}
	}
	if s.Model == nil && !x.Concrete {
		// a lazily explored arm: settle its feasibility once it has run for a while
		if s.UnknownSince == 0 {
			s.UnknownSince = s.Steps
		} else if s.Steps-s.UnknownSince > 4000 {
			res, m := x.pcSat(s)
			if res == smt.Unsat {
				x.LazyDropped++
				return stepDead, nil, stopPoint{}
			}
			if res == smt.Sat {
				s.Model = m
			}
			s.UnknownSince = 0
			if res == smt.Unknown {
				s.UnknownSince = s.Steps
				x.Undecided++
			}
		}
	} else {
		s.UnknownSince = 0
	}
	if x.Trace {
		fmt.Printf("%*s%s [%d.%d] %v\n", len(s.Frames), "", f.Fn.Name(), f.Block.Index, f.IP, ins)
	}
	switch ins := ins.(type) {
	case *ssa.DebugRef:
		f.IP++
		return stepCont, nil, stopPoint{}

	case *ssa.Jump:
		if !x.enterBlock(s, f.Block.Succs[0]) {
			return stepDead, nil, stopPoint{}
		}
		return stepCont, nil, stopPoint{}

	case *ssa.If:
		c := x.term(f, ins.Cond)
		if c.IsConst() {
			idx := 1
			if c.Val == 1 {
				idx = 0
			}
			if !x.enterBlock(s, f.Block.Succs[idx]) {
				return stepDead, nil, stopPoint{}
			}
			return stepCont, nil, stopPoint{}
		}
		succs := f.Block.Succs
		outs := []Outcome{{Cond: c}, {Cond: x.Ctx.Not(c)}}
		lazy := x.Lazy
		return x.forkOnL(s, outs, func(cs *State, o Outcome) bool {
			idx := 1
			if o.Cond == c {
				idx = 0
			}
			return x.enterBlock(cs, succs[idx])
		}, lazy)

	case *ssa.Return:
		var result Value
		switch len(ins.Results) {
		case 0:
			result = nil
		case 1:
			result = x.get(f, ins.Results[0])
		default:
			tu := make(Tuple, len(ins.Results))
			for i, r := range ins.Results {
				tu[i] = x.get(f, r)
			}
			result = tu
		}
		x.popFrame(s, result)
		return stepCont, nil, stopPoint{}

	case *ssa.Panic:
		msg := "panic"
		if v, ok := x.get(f, ins.X).(Iface); ok {
			if sv, ok := v.V.(Str); ok {
				if cs, ok := sv.Concrete(); ok {
					msg = "panic: " + cs
				}
			}
		}
		if x.raisePanic(s, msg+" at "+x.W.Prog.Fset.Position(ins.Pos()).String()) {
			return stepCont, nil, stopPoint{}
		}
		return stepDead, nil, stopPoint{}

	case *ssa.RunDefers:
		for i := len(f.Defers) - 1; i >= 0; i-- {
			if msg := x.unlockDeferred(s, f.Defers[i]); msg != "" {
				f.Defers = f.Defers[:i:i]
				if x.raisePanic(s, msg) {
					return stepCont, nil, stopPoint{}
				}
				return stepDead, nil, stopPoint{}
			}
		}
		f.Defers = nil
		f.IP++
		return stepCont, nil, stopPoint{}

	case *ssa.Defer:
		// only harmless deferred calls are tolerated: they are dropped
		name := ""
		if c := ins.Call.StaticCallee(); c != nil {
			name = c.String()
		}
		if !x.W.harmlessDefer(name) {
			unsupported("defer of %s", name)
		}
		if name == "(*sync.Mutex).Unlock" {
			p, ok := x.get(f, ins.Call.Args[0]).(Ptr)
			if !ok {
				unsupported("defer of Mutex.Unlock on %T", x.get(f, ins.Call.Args[0]))
			}
			f.Defers = append(f.Defers[:len(f.Defers):len(f.Defers)], p)
		}
		f.IP++
		return stepCont, nil, stopPoint{}

	case *ssa.Store:
		addr := x.get(f, ins.Addr)
		if sp, isSym := addr.(SymPtr); isSym {
			arr := s.load(Ptr{sp.Obj, sp.Path}).(*ArrayVal)
			na := &ArrayVal{E: append([]Value(nil), arr.E...)}
			val := x.get(f, ins.Val).(*smt.Term)
			for i := 0; i < sp.N; i++ {
				hit := x.Ctx.Eq(sp.Idx, smt.Const(sp.Idx.W, uint64(i)))
				na.E[sp.Off+i] = x.Ctx.Ite(hit, val, arr.E[sp.Off+i].(*smt.Term))
			}
			s.store(Ptr{sp.Obj, sp.Path}, na)
			f.IP++
			f.AtStart = false
			return stepCont, nil, stopPoint{}
		}
		p, ok := addr.(Ptr)
		if !ok {
			unsupported("store to %T", addr)
		}
		if p.Obj == 0 {
			if x.raisePanic(s, "nil pointer dereference (store)") {
				return stepCont, nil, stopPoint{}
			}
			return stepDead, nil, stopPoint{}
		}
		s.store(p, x.get(f, ins.Val))
		f.IP++
		f.AtStart = false
		return stepCont, nil, stopPoint{}

	case *ssa.MapUpdate:
		return x.mapUpdate(s, f, ins)

	case *ssa.Call:
		return x.call(s, f, ins)

	case *ssa.Go, *ssa.Select, *ssa.Send:
		unsupported("concurrency instruction %T", ins)
	}

	// value-producing instructions
	v, ok := ins.(ssa.Value)
	if !ok {
		unsupported("instruction %T", ins)
	}
	outs := x.eval(s, f, v)
	if len(outs) == 1 && outs[0].Cond == smt.True && outs[0].Panic == "" && outs[0].Cut == "" {
		if outs[0].Then != nil {
			outs[0].Then(s)
		}
		x.deliver(s, outs[0].Val)
		return stepCont, nil, stopPoint{}
	}
	return x.forkOn(s, outs, func(cs *State, o Outcome) bool {
		x.deliver(cs, o.Val)
		return true
	})
}

func one(v Value) []Outcome { return []Outcome{{Cond: smt.True, Val: v}} }

func panicOutcome(msg string) []Outcome { return []Outcome{{Cond: smt.True, Panic: msg}} }

// eval computes a value-producing instruction (not calls).
func (x *Exec) eval(s *State, f *Frame, v ssa.Value) []Outcome {
	c := x.Ctx
	switch ins := v.(type) {
	case *ssa.Alloc:
		et := ins.Type().Underlying().(*types.Pointer).Elem()
		id := s.alloc(zero(et))
		return one(Ptr{Obj: id})

	case *ssa.BinOp:
		return x.binop(s, ins.Op, ins.X.Type(), x.get(f, ins.X), x.get(f, ins.Y), ins.Y.Type())

	case *ssa.UnOp:
		xv := x.get(f, ins.X)
		switch ins.Op {
		case token.MUL:
			if sp, isSym := xv.(SymPtr); isSym {
				arr := s.load(Ptr{sp.Obj, sp.Path}).(*ArrayVal)
				ts := make([]*smt.Term, sp.N)
				for i := range ts {
					ts[i] = arr.E[sp.Off+i].(*smt.Term)
				}
				return one(x.tableSelect(ts, sp.Idx))
			}
			p, ok := xv.(Ptr)
			if !ok {
				unsupported("load from %T", xv)
			}
			if p.Obj == 0 {
				return panicOutcome("nil pointer dereference")
			}
			val := s.load(p)
			if o, ok := val.(Opaque); ok {
				// an unmodelled string (an error description built by Sprintf) may be copied and
				// concatenated; any other use of it stops the job
				if b, isB := ins.Type().Underlying().(*types.Basic); !isB || b.Info()&types.IsString == 0 {
					unsupported("load of unmodelled value: %s (%s)", o.Why, ins.X)
				}
			}
			return one(val)
		case token.NOT:
			return one(c.Not(xv.(*smt.Term)))
		case token.SUB:
			return one(c.Neg(xv.(*smt.Term)))
		case token.XOR:
			return one(c.BvNot(xv.(*smt.Term)))
		}
		unsupported("unary op %s", ins.Op)

	case *ssa.ChangeType:
		return one(x.get(f, ins.X))

	case *ssa.ChangeInterface:
		return one(x.get(f, ins.X))

	case *ssa.MakeInterface:
		return one(Iface{T: ins.X.Type(), V: x.get(f, ins.X)})

	case *ssa.MakeClosure:
		env := make([]Value, len(ins.Bindings))
		for i, b := range ins.Bindings {
			env[i] = x.get(f, b)
		}
		return one(&Closure{Fn: ins.Fn.(*ssa.Function), Env: env})

	case *ssa.MakeMap:
		id := s.alloc(&MapVal{Index: map[string]int{}})
		return one(MapRef{Obj: id})

	case *ssa.MakeSlice:
		ln, ok1 := constInt(x.get(f, ins.Len))
		cp, ok2 := constInt(x.get(f, ins.Cap))
		if !ok1 || !ok2 {
			unsupported("make([]T) with symbolic length")
		}
		if ln < 0 || cp < ln {
			return panicOutcome("makeslice: len out of range")
		}
		et := ins.Type().Underlying().(*types.Slice).Elem()
		elems := make([]Value, cp)
		z := zero(et)
		for i := range elems {
			elems[i] = z
		}
		id := s.alloc(&ArrayVal{E: elems})
		return one(Slice{Obj: id, Off: 0, Len: ln, Cap: cp})

	case *ssa.Convert:
		return x.convert(s, ins.X.Type(), ins.Type(), x.get(f, ins.X))

	case *ssa.Extract:
		tu, ok := x.get(f, ins.Tuple).(Tuple)
		if !ok {
			unsupported("extract from %T", x.get(f, ins.Tuple))
		}
		return one(tu[ins.Index])

	case *ssa.Field:
		sv, ok := x.get(f, ins.X).(*StructVal)
		if !ok {
			unsupported("field of %T", x.get(f, ins.X))
		}
		return one(sv.F[ins.Field])

	case *ssa.FieldAddr:
		p, ok := x.get(f, ins.X).(Ptr)
		if !ok {
			unsupported("fieldaddr of %T", x.get(f, ins.X))
		}
		if p.Obj == 0 {
			return panicOutcome("nil pointer dereference (field)")
		}
		return one(Ptr{Obj: p.Obj, Path: pathAppend(p.Path, ins.Field)})

	case *ssa.Index:
		return x.index(s, x.get(f, ins.X), x.idx64(f, ins.Index), ins.X.Type())

	case *ssa.IndexAddr:
		if outs := x.indexAddrStrings(s, x.get(f, ins.X), x.idx64(f, ins.Index), ins); outs != nil {
			return outs
		}
		return x.indexAddr(s, x.get(f, ins.X), x.idx64(f, ins.Index))

	case *ssa.Lookup:
		return x.lookup(s, x.get(f, ins.X), x.get(f, ins.Index), ins)

	case *ssa.Slice:
		return x.sliceOp(s, f, ins)

	case *ssa.TypeAssert:
		return x.typeAssert(s, x.get(f, ins.X), ins)

	case *ssa.Range:
		xv := x.get(f, ins.X)
		switch xv := xv.(type) {
		case Str:
			id := s.alloc(&IterState{Kind: "string", S: xv})
			return one(IterRef{id})
		case MapRef:
			it := &IterState{Kind: "map"}
			if xv.Obj != 0 {
				m := s.hget(xv.Obj).(*MapVal)
				it.Keys = append(it.Keys, m.Keys...)
				it.Vals = append(it.Vals, m.Vals...)
			}
			id := s.alloc(it)
			return one(IterRef{id})
		}
		unsupported("range over %T", xv)

	case *ssa.Next:
		return x.next(s, x.get(f, ins.Iter).(IterRef), ins)

	case *ssa.Phi:
		unsupported("internal: phi executed in block body")

	case *ssa.SliceToArrayPointer:
		sl := x.get(f, ins.X).(Slice)
		n := int(ins.Type().Underlying().(*types.Pointer).Elem().Underlying().(*types.Array).Len())
		if sl.Len < n {
			return panicOutcome("slice to array pointer: length too small")
		}
		if sl.Off != 0 || sl.Obj == 0 {
			unsupported("slice-to-array-pointer of a slice with offset")
		}
		arr := s.sliceArr(sl)
		if len(arr.E) != n {
			unsupported("slice-to-array-pointer with different backing length")
		}
		return one(Ptr{Obj: sl.Obj, Path: sl.Path})
	}
	unsupported("instruction %T (%v)", v, v)
	return nil
}

// idx64 widens an index operand to 64 bits according to its Go type.
func (x *Exec) idx64(f *Frame, v ssa.Value) *smt.Term {
	t := x.term(f, v)
	if t.W == 64 {
		return t
	}
	_, signed, _ := scalarInfo(v.Type())
	return x.Ctx.Resize(t, 64, signed)
}

// ---------- binary operators ----------

func (x *Exec) strEq(a, b Str) *smt.Term {
	if len(a.B) != len(b.B) {
		return smt.False
	}
	r := smt.True
	for i := range a.B {
		r = x.Ctx.And(r, x.Ctx.Eq(a.B[i], b.B[i]))
		if r == smt.False {
			return r
		}
	}
	return r
}

// strLess returns a < b (lexicographic on bytes).
func (x *Exec) strLess(a, b Str) *smt.Term {
	c := x.Ctx
	n := len(a.B)
	if len(b.B) < n {
		n = len(b.B)
	}
	// base: all common bytes equal: a<b iff len(a) < len(b)
	r := smt.Bool(len(a.B) < len(b.B))
	for i := n - 1; i >= 0; i-- {
		r = c.Ite(c.Ult(a.B[i], b.B[i]), smt.True, c.Ite(c.Eq(a.B[i], b.B[i]), r, smt.False))
	}
	return r
}

func (x *Exec) equal(a, b Value) *smt.Term {
	c := x.Ctx
	switch a := a.(type) {
	case *smt.Term:
		return c.Eq(a, b.(*smt.Term))
	case Str:
		return x.strEq(a, b.(Str))
	case Ptr:
		bp := b.(Ptr)
		return smt.Bool(a.Obj == bp.Obj && pathEq(a.Path, bp.Path))
	case Iface:
		bi := b.(Iface)
		if a.T == nil || bi.T == nil {
			return smt.Bool(a.T == nil && bi.T == nil)
		}
		if !types.Identical(a.T, bi.T) {
			return smt.False
		}
		return x.equal(a.V, bi.V)
	case *StructVal:
		bs := b.(*StructVal)
		r := smt.True
		for i := range a.F {
			r = c.And(r, x.equal(a.F[i], bs.F[i]))
		}
		return r
	case *ArrayVal:
		ba := b.(*ArrayVal)
		r := smt.True
		for i := range a.E {
			r = c.And(r, x.equal(a.E[i], ba.E[i]))
		}
		return r
	case Slice:
		bs := b.(Slice)
		if a.Obj != 0 && bs.Obj != 0 {
			unsupported("comparison of two non-nil slices")
		}
		return smt.Bool(a.Obj == 0 && bs.Obj == 0)
	case MapRef:
		bm := b.(MapRef)
		return smt.Bool(a.Obj == bm.Obj)
	case NilFunc:
		_, ok := b.(NilFunc)
		return smt.Bool(ok)
	case *ssa.Function, *Closure, *ssa.Builtin:
		if _, ok := b.(NilFunc); ok {
			return smt.False
		}
		unsupported("comparison of function values")
	case *Ext:
		be, ok := b.(*Ext)
		return smt.Bool(ok && (a == be || (a.ID != 0 && a.ID == be.ID && a.Kind == be.Kind)))
	case nil:
		return smt.Bool(b == nil)
	}
	unsupported("equality on %T", a)
	return nil
}

func (x *Exec) binop(s *State, op token.Token, xt types.Type, a, b Value, yt types.Type) []Outcome {
	c := x.Ctx
	switch op {
	case token.EQL:
		return one(x.equal(a, b))
	case token.NEQ:
		return one(c.Not(x.equal(a, b)))
	}
	if op == token.ADD {
		if o, ok := a.(Opaque); ok {
			return one(o)
		}
		if o, ok := b.(Opaque); ok {
			if _, isS := a.(Str); isS {
				return one(o)
			}
		}
	}
	if as, ok := a.(Str); ok {
		bs := b.(Str)
		switch op {
		case token.ADD:
			return one(concatStr(as, bs))
		case token.LSS:
			return one(x.strLess(as, bs))
		case token.GTR:
			return one(x.strLess(bs, as))
		case token.LEQ:
			return one(c.Not(x.strLess(bs, as)))
		case token.GEQ:
			return one(c.Not(x.strLess(as, bs)))
		}
		unsupported("string op %s", op)
	}
	at, ok := a.(*smt.Term)
	if !ok {
		unsupported("binop %s on %T", op, a)
	}
	bt := b.(*smt.Term)
	_, signed, _ := scalarInfo(xt)
	switch op {
	case token.ADD:
		return one(c.Bin(smt.OpAdd, at, bt))
	case token.SUB:
		return one(c.Bin(smt.OpSub, at, bt))
	case token.MUL:
		return one(c.Bin(smt.OpMul, at, bt))
	case token.QUO, token.REM:
		nz := c.Ne(bt, smt.Const(bt.W, 0))
		var o smt.Op
		switch {
		case op == token.QUO && signed:
			o = smt.OpSdiv
		case op == token.QUO:
			o = smt.OpUdiv
		case signed:
			o = smt.OpSrem
		default:
			o = smt.OpUrem
		}
		if nz == smt.True {
			return one(c.Bin(o, at, bt))
		}
		return []Outcome{{Cond: nz, Val: c.Bin(o, at, bt)}, {Cond: c.Not(nz), Panic: "integer divide by zero"}}
	case token.AND:
		if at.W == 0 {
			return one(c.And(at, bt))
		}
		return one(c.Bin(smt.OpBvAnd, at, bt))
	case token.OR:
		if at.W == 0 {
			return one(c.Or(at, bt))
		}
		return one(c.Bin(smt.OpBvOr, at, bt))
	case token.XOR:
		if at.W == 0 {
			return one(c.Ne(at, bt))
		}
		return one(c.Bin(smt.OpBvXor, at, bt))
	case token.AND_NOT:
		return one(c.Bin(smt.OpBvAnd, at, c.BvNot(bt)))
	case token.SHL, token.SHR:
		_, ysigned, _ := scalarInfo(yt)
		if ysigned {
			if neg := c.Slt(bt, smt.Const(bt.W, 0)); neg != smt.False {
				if neg == smt.True {
					return panicOutcome("negative shift amount")
				}
				unsupported("shift by a possibly negative symbolic amount")
			}
		}
		// bring the count to the operand width, saturating
		cnt := bt
		if bt.W > at.W {
			big := c.Uge(bt, smt.Const(bt.W, uint64(at.W)))
			cnt = c.Ite(big, smt.Const(at.W, uint64(at.W)), c.Extract(bt, at.W-1, 0))
		} else if bt.W < at.W {
			cnt = c.Zext(bt, at.W)
		}
		switch {
		case op == token.SHL:
			return one(c.Bin(smt.OpShl, at, cnt))
		case signed:
			return one(c.Bin(smt.OpAshr, at, cnt))
		default:
			return one(c.Bin(smt.OpLshr, at, cnt))
		}
	case token.LSS, token.LEQ, token.GTR, token.GEQ:
		if signed {
			switch op {
			case token.LSS:
				return one(c.Slt(at, bt))
			case token.LEQ:
				return one(c.Sle(at, bt))
			case token.GTR:
				return one(c.Sgt(at, bt))
			default:
				return one(c.Sge(at, bt))
			}
		}
		switch op {
		case token.LSS:
			return one(c.Ult(at, bt))
		case token.LEQ:
			return one(c.Ule(at, bt))
		case token.GTR:
			return one(c.Ugt(at, bt))
		default:
			return one(c.Uge(at, bt))
		}
	}
	unsupported("binop %s", op)
	return nil
}

// ---------- conversions ----------

func (x *Exec) convert(s *State, from, to types.Type, v Value) []Outcome {
	c := x.Ctx
	fu, tu := from.Underlying(), to.Underlying()
	if tw, _, ok := scalarInfo(to); ok {
		if t, isT := v.(*smt.Term); isT {
			_, fsigned, _ := scalarInfo(from)
			if tw == 0 || t.W == 0 {
				return one(t)
			}
			return one(c.Resize(t, tw, fsigned))
		}
		if _, isO := v.(Opaque); isO {
			return one(v)
		}
	}
	if isFloat(to) {
		return one(Opaque{"float conversion"})
	}
	if isString(to) {
		switch fv := v.(type) {
		case Str:
			return one(fv)
		case Slice:
			el := fu.(*types.Slice).Elem()
			if w, _, _ := scalarInfo(el); w == 8 {
				return one(s.bytesOf(fv))
			}
			// []rune -> string
			runes := s.sliceElems(fv)
			return x.encodeRunes(s, runes)
		case *smt.Term:
			// string(rune)
			_, fsigned, _ := scalarInfo(from)
			r := c.Resize(fv, 32, fsigned)
			if fv.W == 64 {
				// out-of-range values become U+FFFD
				inr := c.Ule(fv, smt.Const(64, 0x10FFFF))
				r = c.Ite(inr, r, smt.Const(32, 0xFFFD))
			}
			return x.encodeRunes(s, []Value{r})
		}
	}
	if sl, ok := tu.(*types.Slice); ok {
		if str, isStr := v.(Str); isStr {
			if w, _, _ := scalarInfo(sl.Elem()); w == 8 {
				return one(s.newByteSlice(str))
			}
			// string -> []rune
			return x.decodeAll(s, str, func(st *State, runes []*smt.Term) Value {
				el := make([]Value, len(runes))
				for i, r := range runes {
					el[i] = r
				}
				return st.newSlice(el)
			})
		}
		if _, isSl := v.(Slice); isSl {
			return one(v)
		}
	}
	switch v.(type) {
	case Ptr, MapRef, Iface, *StructVal, *ArrayVal, Slice:
		return one(v) // pointer/unsafe/identical-underlying conversions
	}
	unsupported("conversion %s -> %s of %T", from, to, v)
	return nil
}

// ---------- indexing ----------

// tableSelect builds the value elems[idx] for a symbolic idx over constant or
// symbolic scalar elements.
func (x *Exec) tableSelect(elems []*smt.Term, idx *smt.Term) *smt.Term {
	c := x.Ctx
	n := len(elems)
	// run-length compress
	type run struct {
		hi int
		v  *smt.Term
	}
	var runs []run
	for i := 0; i < n; i++ {
		if len(runs) > 0 {
			last := runs[len(runs)-1].v
			if last == elems[i] || (last.IsConst() && elems[i].IsConst() && last.Val == elems[i].Val) {
				runs[len(runs)-1].hi = i
				continue
			}
		}
		runs = append(runs, run{i, elems[i]})
	}
	var build func(lo, hi int) *smt.Term
	build = func(lo, hi int) *smt.Term {
		if lo == hi {
			return runs[lo].v
		}
		mid := (lo + hi) / 2
		return c.Ite(c.Ule(idx, smt.Const(idx.W, uint64(runs[mid].hi))), build(lo, mid), build(mid+1, hi))
	}
	return build(0, len(runs)-1)
}

func (x *Exec) boundsOK(idx *smt.Term, n int) *smt.Term {
	// 0 <= idx < n, idx is a signed int in Go but unsigned comparison covers negatives
	return x.Ctx.Ult(idx, smt.Const(idx.W, uint64(n)))
}

func (x *Exec) index(s *State, xv Value, idx *smt.Term, xt types.Type) []Outcome {
	var elems []Value
	switch xv := xv.(type) {
	case Str:
		elems = make([]Value, len(xv.B))
		for i, b := range xv.B {
			elems[i] = b
		}
	case *ArrayVal:
		elems = xv.E
	default:
		unsupported("index of %T", xv)
	}
	return x.indexElems(s, elems, idx)
}

func (x *Exec) indexElems(s *State, elems []Value, idx *smt.Term) []Outcome {
	if i, ok := constInt(idx); ok {
		if i < 0 || i >= len(elems) {
			return panicOutcome(fmt.Sprintf("index out of range [%d] with length %d", i, len(elems)))
		}
		return one(elems[i])
	}
	inb := x.boundsOK(idx, len(elems))
	oob := Outcome{Cond: x.Ctx.Not(inb), Panic: fmt.Sprintf("index out of range (symbolic index, length %d)", len(elems))}
	// scalar elements: table select
	ts := make([]*smt.Term, len(elems))
	allT := true
	for i, e := range elems {
		t, ok := e.(*smt.Term)
		if !ok {
			allT = false
			break
		}
		ts[i] = t
	}
	if allT && len(elems) > 0 {
		if inb == smt.True {
			return one(x.tableSelect(ts, idx))
		}
		return []Outcome{{Cond: inb, Val: x.tableSelect(ts, idx)}, oob}
	}
	// strings: one outcome per distinct length
	if conds, strs, ok := x.strGroups(elems, idx); ok && len(elems) > 1 {
		var outs []Outcome
		for k := range conds {
			outs = append(outs, Outcome{Cond: x.Ctx.And(inb, conds[k]), Val: strs[k]})
		}
		if inb != smt.True {
			outs = append(outs, oob)
		}
		return outs
	}
	// otherwise fork over feasible positions
	var outs []Outcome
	for _, v := range x.concretizeUnder(s, idx, inb, 64) {
		if int(v) < 0 || int(v) >= len(elems) {
			continue
		}
		outs = append(outs, Outcome{Cond: x.Ctx.Eq(idx, smt.Const(idx.W, v)), Val: elems[int(v)]})
	}
	if inb != smt.True {
		outs = append(outs, oob)
	}
	return outs
}

// strGroups splits the positions of an array of strings by string length and returns, per
// length, the condition "idx is one of those positions" and the string whose bytes select on idx.
func (x *Exec) strGroups(elems []Value, idx *smt.Term) ([]*smt.Term, []Str, bool) {
	c := x.Ctx
	byLen := map[int][]int{}
	var lens []int
	for i, e := range elems {
		st, ok := e.(Str)
		if !ok {
			return nil, nil, false
		}
		if _, seen := byLen[len(st.B)]; !seen {
			lens = append(lens, len(st.B))
		}
		byLen[len(st.B)] = append(byLen[len(st.B)], i)
	}
	var conds []*smt.Term
	var strs []Str
	for _, l := range lens {
		g := byLen[l]
		cond := smt.False
		hits := make([]*smt.Term, len(g))
		for k, i := range g {
			hits[k] = c.Eq(idx, smt.Const(idx.W, uint64(i)))
			cond = c.Or(cond, hits[k])
		}
		out := Str{B: make([]*smt.Term, l)}
		for j := 0; j < l; j++ {
			acc := elems[g[0]].(Str).B[j]
			for k := 1; k < len(g); k++ {
				acc = c.Ite(hits[k], elems[g[k]].(Str).B[j], acc)
			}
			out.B[j] = acc
		}
		conds = append(conds, cond)
		strs = append(strs, out)
	}
	return conds, strs, true
}

// indexAddrStrings handles &a[i] for an array or slice of strings with a symbolic index
// when the address is only loaded from: one outcome per distinct string length, each
// pointing at a fresh cell holding the string selected by the index. nil: not applicable.
func (x *Exec) indexAddrStrings(s *State, xv Value, idx *smt.Term, ins *ssa.IndexAddr) []Outcome {
	if idx.IsConst() {
		return nil
	}
	for _, r := range *ins.Referrers() {
		u, ok := r.(*ssa.UnOp)
		if !ok || u.Op != token.MUL {
			return nil
		}
	}
	var elems []Value
	switch xv := xv.(type) {
	case Slice:
		if xv.Obj == 0 {
			return nil
		}
		arr, ok := s.load(Ptr{Obj: xv.Obj, Path: xv.Path}).(*ArrayVal)
		if !ok {
			return nil
		}
		elems = arr.E[xv.Off : xv.Off+xv.Len]
	case Ptr:
		if xv.Obj == 0 {
			return nil
		}
		arr, ok := s.load(xv).(*ArrayVal)
		if !ok {
			return nil
		}
		elems = arr.E
	default:
		return nil
	}
	if len(elems) < 2 {
		return nil
	}
	conds, strs, ok := x.strGroups(elems, idx)
	if !ok {
		return nil
	}
	inb := x.boundsOK(idx, len(elems))
	var outs []Outcome
	for k := range conds {
		str := strs[k]
		outs = append(outs, Outcome{Cond: x.Ctx.And(inb, conds[k]), Val: lazyVal{func(cs *State) Value { return Ptr{Obj: cs.alloc(str)} }}})
	}
	if inb != smt.True {
		outs = append(outs, Outcome{Cond: x.Ctx.Not(inb), Panic: fmt.Sprintf("index out of range (symbolic index, length %d)", len(elems))})
	}
	return outs
}

func (x *Exec) indexAddr(s *State, xv Value, idx *smt.Term) []Outcome {
	var base Ptr
	var n, off int
	switch xv := xv.(type) {
	case Slice:
		if xv.Obj == 0 {
			if i, ok := constInt(idx); ok {
				return panicOutcome(fmt.Sprintf("index out of range [%d] with length 0", i))
			}
			return panicOutcome("index out of range with length 0")
		}
		base, n, off = Ptr{Obj: xv.Obj, Path: xv.Path}, xv.Len, xv.Off
	case Ptr:
		if xv.Obj == 0 {
			return panicOutcome("nil pointer dereference (index)")
		}
		arr, ok := s.load(xv).(*ArrayVal)
		if !ok {
			unsupported("indexaddr through pointer to %T", s.load(xv))
		}
		base, n, off = xv, len(arr.E), 0
	default:
		unsupported("indexaddr of %T", xv)
	}
	if i, ok := constInt(idx); ok {
		if i < 0 || i >= n {
			return panicOutcome(fmt.Sprintf("index out of range [%d] with length %d", i, n))
		}
		return one(Ptr{Obj: base.Obj, Path: pathAppend(base.Path, off+i)})
	}
	inb := x.boundsOK(idx, n)
	if arr, ok := s.load(base).(*ArrayVal); ok && n > 0 {
		if _, scalar := arr.E[off].(*smt.Term); scalar {
			sp := SymPtr{Obj: base.Obj, Path: base.Path, Off: off, N: n, Idx: idx}
			if inb == smt.True {
				return one(sp)
			}
			return []Outcome{{Cond: inb, Val: sp}, {Cond: x.Ctx.Not(inb), Panic: fmt.Sprintf("index out of range (symbolic index, length %d)", n)}}
		}
	}
	var outs []Outcome
	for _, v := range x.concretizeUnder(s, idx, inb, 64) {
		if int(v) < 0 || int(v) >= n {
			continue
		}
		outs = append(outs, Outcome{Cond: x.Ctx.Eq(idx, smt.Const(idx.W, v)), Val: Ptr{Obj: base.Obj, Path: pathAppend(base.Path, off+int(v))}})
	}
	if inb != smt.True {
		outs = append(outs, Outcome{Cond: x.Ctx.Not(inb), Panic: fmt.Sprintf("index out of range (symbolic index, length %d)", n)})
	}
	return outs
}

func (x *Exec) sliceOp(s *State, f *Frame, ins *ssa.Slice) []Outcome {
	xv := x.get(f, ins.X)
	geti := func(v ssa.Value, def int) (int, bool) {
		if v == nil {
			return def, true
		}
		return constInt(x.get(f, v))
	}
	switch xv := xv.(type) {
	case Str:
		lo, ok1 := geti(ins.Low, 0)
		hi, ok2 := geti(ins.High, len(xv.B))
		if !ok1 || !ok2 {
			return x.sliceSymbolic(s, f, ins)
		}
		if lo < 0 || hi < lo || hi > len(xv.B) {
			return panicOutcome(fmt.Sprintf("slice bounds out of range [%d:%d] with length %d", lo, hi, len(xv.B)))
		}
		return one(Str{B: xv.B[lo:hi]})
	case Slice:
		lo, ok1 := geti(ins.Low, 0)
		hi, ok2 := geti(ins.High, xv.Len)
		mx, ok3 := geti(ins.Max, xv.Cap)
		if !ok1 || !ok2 || !ok3 {
			return x.sliceSymbolic(s, f, ins)
		}
		if lo < 0 || hi < lo || mx < hi || mx > xv.Cap {
			return panicOutcome(fmt.Sprintf("slice bounds out of range [%d:%d:%d] with capacity %d", lo, hi, mx, xv.Cap))
		}
		if xv.Obj == 0 {
			return one(Slice{})
		}
		return one(Slice{Obj: xv.Obj, Path: xv.Path, Off: xv.Off + lo, Len: hi - lo, Cap: mx - lo})
	case Ptr:
		if xv.Obj == 0 {
			return panicOutcome("nil pointer dereference (slice)")
		}
		arr, ok := s.load(xv).(*ArrayVal)
		if !ok {
			unsupported("slice of pointer to %T", s.load(xv))
		}
		n := len(arr.E)
		lo, ok1 := geti(ins.Low, 0)
		hi, ok2 := geti(ins.High, n)
		mx, ok3 := geti(ins.Max, n)
		if !ok1 || !ok2 || !ok3 {
			return x.sliceSymbolic(s, f, ins)
		}
		if lo < 0 || hi < lo || mx < hi || mx > n {
			return panicOutcome(fmt.Sprintf("slice bounds out of range [%d:%d:%d] with capacity %d", lo, hi, mx, n))
		}
		return one(Slice{Obj: xv.Obj, Path: xv.Path, Off: lo, Len: hi - lo, Cap: mx - lo})
	}
	unsupported("slice of %T", xv)
	return nil
}

// sliceSymbolic handles slice expressions with a symbolic bound by forking over its feasible values.
func (x *Exec) sliceSymbolic(s *State, f *Frame, ins *ssa.Slice) []Outcome {
	var which ssa.Value
	for _, v := range []ssa.Value{ins.Low, ins.High, ins.Max} {
		if v == nil {
			continue
		}
		if _, ok := constInt(x.get(f, v)); !ok {
			which = v
			break
		}
	}
	t := x.term(f, which)
	var outs []Outcome
	for _, val := range x.concretize(s, t, 64) {
		val := val
		cv := smt.Const(t.W, val)
		// evaluate the slice with this bound made concrete
		saved := f.Regs[which]
		f.Regs[which] = cv
		sub := x.sliceOp(s, f, ins)
		f.Regs[which] = saved
		for _, o := range sub {
			o.Cond = x.Ctx.And(x.Ctx.Eq(t, cv), o.Cond)
			outs = append(outs, o)
		}
	}
	return outs
}

// ---------- type assertions ----------

func (x *Exec) implements(dyn types.Type, iface *types.Interface) bool {
	return types.Implements(dyn, iface)
}

func (x *Exec) typeAssert(s *State, xv Value, ins *ssa.TypeAssert) []Outcome {
	iv, ok := xv.(Iface)
	if !ok {
		unsupported("type assertion on %T", xv)
	}
	at := ins.AssertedType
	okv := false
	var res Value
	if iv.T != nil {
		if ai, isI := at.Underlying().(*types.Interface); isI {
			if x.implements(iv.T, ai) {
				okv, res = true, iv
			}
		} else if types.Identical(iv.T, at) {
			okv, res = true, iv.V
		}
	}
	if ins.CommaOk {
		if !okv {
			res = zero(at)
		}
		return one(Tuple{res, smt.Bool(okv)})
	}
	if !okv {
		return panicOutcome(fmt.Sprintf("interface conversion: %v is not %v", iv.T, at))
	}
	return one(res)
}

// ---------- maps ----------

func (x *Exec) mapGet(s *State, m MapRef) *MapVal {
	if m.Obj == 0 {
		return &MapVal{}
	}
	mv, ok := s.hget(m.Obj).(*MapVal)
	if !ok {
		unsupported("internal: map object is %T", s.hget(m.Obj))
	}
	return mv
}

// keyCandidates returns for a lookup key the list of (condition, index) of entries
// that can equal it; concrete keys use the index.
func (x *Exec) keyCandidates(mv *MapVal, key Value) (conds []*smt.Term, idxs []int) {
	if ks, ok := mapKeyString(key); ok {
		symbolicEntries := len(mv.Keys) != len(mv.Index)
		if i, hit := mv.Index[ks]; hit {
			return []*smt.Term{smt.True}, []int{i}
		}
		if !symbolicEntries {
			return nil, nil
		}
	}
	for i, k := range mv.Keys {
		e := x.equal(k, key)
		if e == smt.False {
			continue
		}
		conds = append(conds, e)
		idxs = append(idxs, i)
		if e == smt.True {
			break
		}
	}
	return
}

func (x *Exec) lookup(s *State, xv Value, key Value, ins *ssa.Lookup) []Outcome {
	m, ok := xv.(MapRef)
	if !ok {
		unsupported("lookup in %T", xv)
	}
	mv := x.mapGet(s, m)
	vt := ins.X.Type().Underlying().(*types.Map).Elem()
	mk := func(v Value, found bool) Value {
		if ins.CommaOk {
			return Tuple{v, smt.Bool(found)}
		}
		return v
	}
	conds, idxs := x.keyCandidates(mv, key)
	if len(conds) == 1 && conds[0] == smt.True {
		return one(mk(mv.Vals[idxs[0]], true))
	}
	if len(conds) == 0 {
		return one(mk(zero(vt), false))
	}
	// scalar values: merge into one ite instead of forking
	if _, _, scalar := scalarInfo(vt); scalar {
		c := x.Ctx
		val := zero(vt).(*smt.Term)
		found := smt.False
		for i := len(conds) - 1; i >= 0; i-- {
			val = c.Ite(conds[i], mv.Vals[idxs[i]].(*smt.Term), val)
			found = c.Or(found, conds[i])
		}
		if ins.CommaOk {
			return one(Tuple{val, found})
		}
		return one(val)
	}
	var outs []Outcome
	none := smt.True
	for i := range conds {
		outs = append(outs, Outcome{Cond: x.Ctx.And(none, conds[i]), Val: mk(mv.Vals[idxs[i]], true)})
		none = x.Ctx.And(none, x.Ctx.Not(conds[i]))
	}
	outs = append(outs, Outcome{Cond: none, Val: mk(zero(vt), false)})
	return outs
}

func (x *Exec) mapUpdate(s *State, f *Frame, ins *ssa.MapUpdate) (stepResult, []*State, stopPoint) {
	m, ok := x.get(f, ins.Map).(MapRef)
	if !ok {
		unsupported("map update on %T", x.get(f, ins.Map))
	}
	if m.Obj == 0 {
		if x.raisePanic(s, "assignment to entry in nil map") {
			return stepCont, nil, stopPoint{}
		}
		return stepDead, nil, stopPoint{}
	}
	key, val := x.get(f, ins.Key), x.get(f, ins.Value)
	mv := x.mapGet(s, m)
	conds, idxs := x.keyCandidates(mv, key)
	set := func(st *State, i int) {
		cur := x.mapGet(st, m)
		n := cur.clone()
		if i < 0 {
			n.Keys = append(n.Keys, key)
			n.Vals = append(n.Vals, val)
			if ks, ok := mapKeyString(key); ok {
				n.Index[ks] = len(n.Keys) - 1
			}
		} else {
			n.Vals[i] = val
		}
		st.hset(m.Obj, n)
	}
	if len(conds) == 1 && conds[0] == smt.True {
		set(s, idxs[0])
		f.IP++
		f.AtStart = false
		return stepCont, nil, stopPoint{}
	}
	if len(conds) == 0 {
		set(s, -1)
		f.IP++
		f.AtStart = false
		return stepCont, nil, stopPoint{}
	}
	var outs []Outcome
	none := smt.True
	for i := range conds {
		idx := idxs[i]
		outs = append(outs, Outcome{Cond: x.Ctx.And(none, conds[i]), Then: func(st *State) { set(st, idx) }})
		none = x.Ctx.And(none, x.Ctx.Not(conds[i]))
	}
	outs = append(outs, Outcome{Cond: none, Then: func(st *State) { set(st, -1) }})
	return x.forkOn(s, outs, func(cs *State, o Outcome) bool {
		cf := cs.top()
		cf.IP++
		cf.AtStart = false
		return true
	})
}

// ---------- iteration ----------

func (x *Exec) next(s *State, it IterRef, ins *ssa.Next) []Outcome {
	st := s.hget(it.Obj).(*IterState)
	if ins.IsString {
		if st.Pos >= len(st.S.B) {
			return one(Tuple{smt.False, intConst(0), smt.Const(32, 0)})
		}
		pos := st.Pos
		var outs []Outcome
		for _, d := range x.decodeAt(s, st.S, pos) {
			d := d
			outs = append(outs, Outcome{Cond: d.Cond, Val: Tuple{smt.True, intConst(pos), d.Rune}, Then: func(cs *State) {
				cur := cs.hget(it.Obj).(*IterState)
				n := *cur
				n.Pos = pos + d.Width
				cs.hset(it.Obj, &n)
			}})
		}
		return outs
	}
	// map iteration: insertion order (maps built by literals/initialisers keep source order)
	if st.Pos >= len(st.Keys) {
		mt := ins.Iter.(*ssa.Range).X.Type().Underlying().(*types.Map)
		return one(Tuple{smt.False, zero(mt.Key()), zero(mt.Elem())})
	}
	pos := st.Pos
	return []Outcome{{Cond: smt.True, Val: Tuple{smt.True, st.Keys[pos], st.Vals[pos]}, Then: func(cs *State) {
		cur := cs.hget(it.Obj).(*IterState)
		n := *cur
		n.Pos = pos + 1
		cs.hset(it.Obj, &n)
	}}}
}
