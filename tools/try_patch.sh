#!/bin/bash
# usage: tools/try_patch.sh <patch.diff> <prop> [tier]   runs one check against a scratch worktree of /repo's HEAD with the
# patch applied (the worktree lives outside /repo and /verif and is reset afterwards; /verif/evidence is left untouched)
patch=$(readlink -f $1); prop=$2; tier=${3:-quick}
t=${TRY_SCRATCH:-/tmp/tryrepo2}
[ -d $t ] || git -C /repo worktree add -q --detach $t HEAD
git -C $t checkout -q --detach $(git -C /repo rev-parse HEAD) && git -C $t checkout -q -- . && git -C $t clean -fdq
git -C $t apply $patch || { echo "patch does not apply"; exit 2; }
cd /verif
VERIF_REPO=$t VERIF_EVIDENCE_DIR=/tmp/try_evidence timeout 3600 ./checks/run.sh $prop $tier 2>&1 | grep -E "^(OK|VIOLATION|INCONCLUSIVE|  harness|KNOWN|STALE)" | cut -c1-420 | grep -v "^KNOWN" | head -${TRY_LINES:-6}
code=${PIPESTATUS[0]}
git -C $t checkout -q -- . && git -C $t clean -fdq
echo "exit=$code"
