// Package smt is a small hash-consed QF_BV term language with an SMT-LIB 2
// printer and a driver for z3 / cvc5 running as child processes.
package smt

import (
	"fmt"
	"math/bits"
)

type Op uint8

const (
	OpConst Op = iota
	OpVar
	OpNot
	OpAnd
	OpOr
	OpEq
	OpUlt
	OpUle
	OpSlt
	OpSle
	OpIte
	OpAdd
	OpSub
	OpMul
	OpUdiv
	OpUrem
	OpSdiv
	OpSrem
	OpBvAnd
	OpBvOr
	OpBvXor
	OpBvNot
	OpNeg
	OpShl
	OpLshr
	OpAshr
	OpConcat
	OpExtract
	OpZext
	OpSext
	OpVS // value set: a small-domain scalar as (value_i when cond_i), conditions exclusive and exhaustive
)

var opNames = [...]string{
	OpNot: "not", OpAnd: "and", OpOr: "or", OpEq: "=", OpUlt: "bvult", OpUle: "bvule",
	OpSlt: "bvslt", OpSle: "bvsle", OpIte: "ite", OpAdd: "bvadd", OpSub: "bvsub", OpMul: "bvmul",
	OpUdiv: "bvudiv", OpUrem: "bvurem", OpSdiv: "bvsdiv", OpSrem: "bvsrem", OpBvAnd: "bvand",
	OpBvOr: "bvor", OpBvXor: "bvxor", OpBvNot: "bvnot", OpNeg: "bvneg", OpShl: "bvshl",
	OpLshr: "bvlshr", OpAshr: "bvashr", OpConcat: "concat",
}

// Term is an immutable node. W == 0 means sort Bool, otherwise (_ BitVec W), W <= 64.
type Term struct {
	Op     Op
	W      int
	A      [3]*Term
	N      int // number of args
	Val    uint64
	Name   string
	Hi, Lo int
	id     int // 0 for constants; otherwise unique within the Ctx
	VarIdx int // index into Ctx.Vars for OpVar
	// CT: the term is a value set (OpVS): a small-domain scalar such as a state-machine
	// state or a counter, kept as value -> condition pairs so that operations with
	// constants stay in that form and comparisons become pure Boolean structure.
	CT    bool
	Vals  []uint64
	Conds []*Term
}

func (t *Term) IsConst() bool { return t.Op == OpConst }
func (t *Term) ID() int       { return t.id }

func mask(w int) uint64 {
	if w >= 64 {
		return ^uint64(0)
	}
	return (uint64(1) << uint(w)) - 1
}

var (
	True   = &Term{Op: OpConst, W: 0, Val: 1}
	False  = &Term{Op: OpConst, W: 0, Val: 0}
	byteCs [256]*Term
)

func init() {
	for i := range byteCs {
		byteCs[i] = &Term{Op: OpConst, W: 8, Val: uint64(i)}
	}
}

func Bool(b bool) *Term {
	if b {
		return True
	}
	return False
}

// Const returns a bit-vector constant (not interned except for bytes).
func Const(w int, v uint64) *Term {
	if w == 0 {
		return Bool(v&1 == 1)
	}
	v &= mask(w)
	if w == 8 {
		return byteCs[v]
	}
	return &Term{Op: OpConst, W: w, Val: v}
}

func Byte(b byte) *Term { return byteCs[b] }

type key struct {
	op      Op
	w       int
	a, b, c *Term
	hi, lo  int
}

// constant operands are not pointer-unique, so they are keyed through a side table
type ckey struct {
	w int
	v uint64
}

// Ctx owns hash-consing tables and variables. Not safe for concurrent use.
type Ctx struct {
	tab    map[key]*Term
	consts map[ckey]*Term
	nextID int
	Vars   []*Term
	byName map[string]*Term
	supp   map[*Term]int
	tables map[*Term]Set256
	vsTab  map[string]*Term
	varsets map[*Term][]uint64
}

func NewCtx() *Ctx {
	return &Ctx{tab: map[key]*Term{}, consts: map[ckey]*Term{}, nextID: 1, byName: map[string]*Term{}}
}

func (c *Ctx) NumNodes() int { return c.nextID }

// canon returns a pointer-unique representative for constants inside this ctx so
// that hash-consing keys are stable.
func (c *Ctx) canon(t *Term) *Term {
	if t == nil || t.Op != OpConst {
		return t
	}
	if t.W == 0 || t.W == 8 {
		return t // globally interned
	}
	k := ckey{t.W, t.Val}
	if r, ok := c.consts[k]; ok {
		return r
	}
	c.consts[k] = t
	return t
}

func (c *Ctx) mk(op Op, w int, hi, lo int, args ...*Term) *Term {
	var k key
	k.op, k.w, k.hi, k.lo = op, w, hi, lo
	if len(args) > 0 {
		k.a = c.canon(args[0])
	}
	if len(args) > 1 {
		k.b = c.canon(args[1])
	}
	if len(args) > 2 {
		k.c = c.canon(args[2])
	}
	if t, ok := c.tab[k]; ok {
		return t
	}
	t := &Term{Op: op, W: w, Hi: hi, Lo: lo, N: len(args), id: c.nextID}
	c.nextID++
	t.A[0], t.A[1], t.A[2] = k.a, k.b, k.c

	c.tab[k] = t
	return t
}

// Var declares (or returns) a named variable.
func (c *Ctx) Var(name string, w int) *Term {
	if t, ok := c.byName[name]; ok {
		if t.W != w {
			panic("smt: variable redeclared with different width: " + name)
		}
		return t
	}
	t := &Term{Op: OpVar, W: w, Name: name, id: c.nextID, VarIdx: len(c.Vars)}
	c.nextID++
	c.byName[name] = t
	c.Vars = append(c.Vars, t)
	return t
}

func isCT(t *Term) bool { return t.Op == OpConst || t.Op == OpVS }

const maxVS = 96

// mkVS builds a value-set term from (value, condition) pairs whose conditions are
// mutually exclusive and exhaustive. Equal values are merged, impossible ones dropped.
func (c *Ctx) mkVS(w int, vals []uint64, conds []*Term) *Term {
	type ent struct {
		v uint64
		c *Term
	}
	var es []ent
	for i, v := range vals {
		v &= mask(w)
		cd := conds[i]
		if cd == False {
			continue
		}
		found := false
		for k := range es {
			if es[k].v == v {
				es[k].c = c.Or(es[k].c, cd)
				found = true
				break
			}
		}
		if !found {
			es = append(es, ent{v, cd})
		}
	}
	if len(es) == 0 {
		return Const(w, 0) // unreachable under its path condition
	}
	if len(es) == 1 {
		return Const(w, es[0].v)
	}
	for _, e := range es {
		if e.c == True {
			return Const(w, e.v)
		}
	}
	// insertion sort by value: canonical order
	for i := 1; i < len(es); i++ {
		for k := i; k > 0 && es[k-1].v > es[k].v; k-- {
			es[k-1], es[k] = es[k], es[k-1]
		}
	}
	if len(es) > maxVS {
		// too many values: fall back to a plain ite chain
		r := Const(w, es[len(es)-1].v)
		for i := len(es) - 2; i >= 0; i-- {
			r = c.mk(OpIte, w, 0, 0, es[i].c, Const(w, es[i].v), r)
		}
		return r
	}
	var kb []byte
	kb = append(kb, byte(w))
	for _, e := range es {
		kb = append(kb, byte(e.v), byte(e.v>>8), byte(e.v>>16), byte(e.v>>24), byte(e.v>>32), byte(e.v>>40), byte(e.v>>48), byte(e.v>>56))
		id := e.c.id
		kb = append(kb, byte(id), byte(id>>8), byte(id>>16), byte(id>>24))
	}
	if c.vsTab == nil {
		c.vsTab = map[string]*Term{}
	}
	if t, ok := c.vsTab[string(kb)]; ok {
		return t
	}
	t := &Term{Op: OpVS, W: w, id: c.nextID, CT: true}
	c.nextID++
	for _, e := range es {
		t.Vals = append(t.Vals, e.v)
		t.Conds = append(t.Conds, e.c)
	}
	c.vsTab[string(kb)] = t
	return t
}

// mapCT applies f to every value of the value set t and recombines the results.
func (c *Ctx) mapCT(t *Term, f func(leaf *Term) *Term) *Term {
	if t.Op == OpConst {
		return f(t)
	}
	rs := make([]*Term, len(t.Vals))
	allCT := true
	for i, v := range t.Vals {
		rs[i] = f(Const(t.W, v))
		if !isCT(rs[i]) {
			allCT = false
		}
	}
	rw := rs[0].W
	if rw == 0 {
		// Boolean result: OR of (cond_i and r_i)
		res := False
		for i, r := range rs {
			res = c.Or(res, c.And(t.Conds[i], r))
		}
		return res
	}
	if allCT {
		var vals []uint64
		var conds []*Term
		for i, r := range rs {
			if r.Op == OpConst {
				vals = append(vals, r.Val)
				conds = append(conds, t.Conds[i])
				continue
			}
			for k, v := range r.Vals {
				vals = append(vals, v)
				conds = append(conds, c.And(t.Conds[i], r.Conds[k]))
			}
		}
		return c.mkVS(rw, vals, conds)
	}
	res := rs[len(rs)-1]
	for i := len(rs) - 2; i >= 0; i-- {
		res = c.Ite(t.Conds[i], rs[i], res)
	}
	return res
}

func same(a, b *Term) bool {
	if a == b {
		return true
	}
	return a.Op == OpConst && b.Op == OpConst && a.W == b.W && a.Val == b.Val
}

// ---------- boolean ----------

func (c *Ctx) Not(a *Term) *Term {
	if a.W != 0 {
		panic("smt.Not on non-bool")
	}
	if a.Op == OpConst {
		return Bool(a.Val == 0)
	}
	if a.Op == OpNot {
		return a.A[0]
	}
	return c.mk(OpNot, 0, 0, 0, a)
}

func isNeg(a, b *Term) bool {
	return (a.Op == OpNot && a.A[0] == b) || (b.Op == OpNot && b.A[0] == a)
}

func (c *Ctx) And(a, b *Term) *Term {
	if a.W != 0 || b.W != 0 {
		panic("smt.And on non-bool")
	}
	if a.Op == OpConst {
		if a.Val == 0 {
			return False
		}
		return b
	}
	if b.Op == OpConst {
		if b.Val == 0 {
			return False
		}
		return a
	}
	if a == b {
		return a
	}
	if isNeg(a, b) {
		return False
	}
	// absorption: a ∧ (a ∨ x) = a
	if b.Op == OpOr && (b.A[0] == a || b.A[1] == a) {
		return a
	}
	if a.Op == OpOr && (a.A[0] == b || a.A[1] == b) {
		return b
	}
	// a ∧ (a ∧ x) = a ∧ x
	if b.Op == OpAnd && (b.A[0] == a || b.A[1] == a) {
		return b
	}
	if a.Op == OpAnd && (a.A[0] == b || a.A[1] == b) {
		return a
	}
	if a.id > b.id {
		a, b = b, a
	}
	return c.mk(OpAnd, 0, 0, 0, a, b)
}

func (c *Ctx) Or(a, b *Term) *Term {
	if a.W != 0 || b.W != 0 {
		panic("smt.Or on non-bool")
	}
	if a.Op == OpConst {
		if a.Val == 1 {
			return True
		}
		return b
	}
	if b.Op == OpConst {
		if b.Val == 1 {
			return True
		}
		return a
	}
	if a == b {
		return a
	}
	if isNeg(a, b) {
		return True
	}
	if b.Op == OpAnd && (b.A[0] == a || b.A[1] == a) {
		return a
	}
	if a.Op == OpAnd && (a.A[0] == b || a.A[1] == b) {
		return b
	}
	if b.Op == OpOr && (b.A[0] == a || b.A[1] == a) {
		return b
	}
	if a.Op == OpOr && (a.A[0] == b || a.A[1] == b) {
		return a
	}
	// (x ∧ y) ∨ (x ∧ ¬y) = x
	if a.Op == OpAnd && b.Op == OpAnd {
		for i := 0; i < 2; i++ {
			for j := 0; j < 2; j++ {
				if a.A[i] == b.A[j] && isNeg(a.A[1-i], b.A[1-j]) {
					return a.A[i]
				}
			}
		}
	}
	if a.id > b.id {
		a, b = b, a
	}
	return c.mk(OpOr, 0, 0, 0, a, b)
}

func (c *Ctx) AndN(ts ...*Term) *Term {
	r := True
	for _, t := range ts {
		r = c.And(r, t)
	}
	return r
}

func (c *Ctx) OrN(ts ...*Term) *Term {
	r := False
	for _, t := range ts {
		r = c.Or(r, t)
	}
	return r
}

func (c *Ctx) Implies(a, b *Term) *Term { return c.Or(c.Not(a), b) }

func (c *Ctx) Ite(cond, a, b *Term) *Term {
	if cond.W != 0 {
		panic("smt.Ite cond non-bool")
	}
	if a.W != b.W {
		panic(fmt.Sprintf("smt.Ite width mismatch %d %d", a.W, b.W))
	}
	if cond.Op == OpConst {
		if cond.Val == 1 {
			return a
		}
		return b
	}
	if same(a, b) {
		return a
	}
	if a.W == 0 {
		if a.Op == OpConst {
			if a.Val == 1 { // ite(c, true, b) = c ∨ b
				return c.Or(cond, b)
			}
			return c.And(c.Not(cond), b)
		}
		if b.Op == OpConst {
			if b.Val == 1 {
				return c.Or(c.Not(cond), a)
			}
			return c.And(cond, a)
		}
	}
	if cond.Op == OpNot {
		return c.Ite(cond.A[0], b, a)
	}
	if a.W != 0 && isCT(a) && isCT(b) {
		var vals []uint64
		var conds []*Term
		add := func(t *Term, g *Term) {
			if t.Op == OpConst {
				vals = append(vals, t.Val)
				conds = append(conds, g)
				return
			}
			for i, v := range t.Vals {
				vals = append(vals, v)
				conds = append(conds, c.And(g, t.Conds[i]))
			}
		}
		add(a, cond)
		add(b, c.Not(cond))
		return c.mkVS(a.W, vals, conds)
	}
	// ite(c, ite(c, x, y), z) = ite(c, x, z)
	if a.Op == OpIte && a.A[0] == cond {
		a = a.A[1]
	}
	if b.Op == OpIte && b.A[0] == cond {
		b = b.A[2]
	}
	if same(a, b) {
		return a
	}
	return c.mk(OpIte, a.W, 0, 0, cond, a, b)
}

func (c *Ctx) Eq(a, b *Term) *Term {
	if a.W != b.W {
		panic(fmt.Sprintf("smt.Eq width mismatch %d %d", a.W, b.W))
	}
	if same(a, b) {
		return True
	}
	if a.Op == OpConst && b.Op == OpConst {
		return False
	}
	if a.W == 0 {
		if a.Op == OpConst {
			if a.Val == 1 {
				return b
			}
			return c.Not(b)
		}
		if b.Op == OpConst {
			if b.Val == 1 {
				return a
			}
			return c.Not(a)
		}
		if isNeg(a, b) {
			return False
		}
	}
	if a.Op == OpConst {
		a, b = b, a
	}
	if b.Op == OpConst {
		if a.CT {
			return c.mapCT(a, func(l *Term) *Term { return Bool(l.Val == b.Val) })
		}
		// push comparison with a constant through ite with a constant arm
		if a.Op == OpIte && (a.A[1].Op == OpConst || a.A[2].Op == OpConst) {
			return c.Ite(a.A[0], c.Eq(a.A[1], b), c.Eq(a.A[2], b))
		}
		if a.Op == OpZext {
			in := a.A[0]
			if b.Val > mask(in.W) {
				return False
			}
			return c.Eq(in, Const(in.W, b.Val))
		}
		if a.Op == OpSext {
			in := a.A[0]
			// representable iff sign-extending the low bits gives b
			low := b.Val & mask(in.W)
			if sextVal(low, in.W, a.W) != b.Val {
				return False
			}
			return c.Eq(in, Const(in.W, low))
		}
	}
	if a.CT && a.W != 0 {
		return c.mapCT(a, func(l *Term) *Term { return c.Eq(b, l) })
	}
	if b.CT && b.W != 0 {
		return c.mapCT(b, func(l *Term) *Term { return c.Eq(a, l) })
	}
	if a.Op != OpConst && b.Op != OpConst && a.id > b.id {
		a, b = b, a
	}
	return c.mk(OpEq, 0, 0, 0, a, b)
}

func (c *Ctx) Ne(a, b *Term) *Term { return c.Not(c.Eq(a, b)) }

func sextVal(v uint64, from, to int) uint64 {
	if from < 64 && v&(1<<uint(from-1)) != 0 {
		v |= ^mask(from)
	}
	return v & mask(to)
}

func toSigned(v uint64, w int) int64 {
	return int64(sextVal(v, w, 64))
}

func (c *Ctx) cmp(op Op, a, b *Term) *Term {
	if a.W != b.W || a.W == 0 {
		panic(fmt.Sprintf("smt.cmp width mismatch %d %d", a.W, b.W))
	}
	if a.Op == OpConst && b.Op == OpConst {
		switch op {
		case OpUlt:
			return Bool(a.Val < b.Val)
		case OpUle:
			return Bool(a.Val <= b.Val)
		case OpSlt:
			return Bool(toSigned(a.Val, a.W) < toSigned(b.Val, b.W))
		case OpSle:
			return Bool(toSigned(a.Val, a.W) <= toSigned(b.Val, b.W))
		}
	}
	if a == b {
		return Bool(op == OpUle || op == OpSle)
	}
	if a.CT && b.Op == OpConst {
		return c.mapCT(a, func(l *Term) *Term { return c.cmp(op, l, b) })
	}
	if b.CT && a.Op == OpConst {
		return c.mapCT(b, func(l *Term) *Term { return c.cmp(op, a, l) })
	}
	if a.CT && b.CT {
		return c.mapCT(a, func(l *Term) *Term { return c.cmp(op, l, b) })
	}
	// narrow comparisons of zero-extended values against small constants
	if a.Op == OpZext && b.Op == OpConst {
		in := a.A[0]
		sb := toSigned(b.Val, b.W)
		signed := op == OpSlt || op == OpSle
		if !signed || sb >= 0 {
			if b.Val > mask(in.W) {
				return True // a <= mask < b
			}
			nop := op
			if op == OpSlt {
				nop = OpUlt
			} else if op == OpSle {
				nop = OpUle
			}
			return c.cmp(nop, in, Const(in.W, b.Val))
		}
		return False // zext value is non-negative, b negative
	}
	if b.Op == OpZext && a.Op == OpConst {
		in := b.A[0]
		sa := toSigned(a.Val, a.W)
		signed := op == OpSlt || op == OpSle
		if !signed || sa >= 0 {
			if a.Val > mask(in.W) {
				return False
			}
			nop := op
			if op == OpSlt {
				nop = OpUlt
			} else if op == OpSle {
				nop = OpUle
			}
			return c.cmp(nop, Const(in.W, a.Val), in)
		}
		return True
	}
	if a.Op == OpZext && b.Op == OpZext && a.A[0].W == b.A[0].W {
		nop := op
		if op == OpSlt {
			nop = OpUlt
		} else if op == OpSle {
			nop = OpUle
		}
		return c.cmp(nop, a.A[0], b.A[0])
	}
	if op == OpUlt && b.Op == OpConst && b.Val == 0 {
		return False
	}
	if op == OpUle && a.Op == OpConst && a.Val == 0 {
		return True
	}
	if op == OpUle && b.Op == OpConst && b.Val == mask(b.W) {
		return True
	}
	return c.mk(op, 0, 0, 0, a, b)
}

func (c *Ctx) Ult(a, b *Term) *Term { return c.cmp(OpUlt, a, b) }
func (c *Ctx) Ule(a, b *Term) *Term { return c.cmp(OpUle, a, b) }
func (c *Ctx) Slt(a, b *Term) *Term { return c.cmp(OpSlt, a, b) }
func (c *Ctx) Sle(a, b *Term) *Term { return c.cmp(OpSle, a, b) }
func (c *Ctx) Ugt(a, b *Term) *Term { return c.cmp(OpUlt, b, a) }
func (c *Ctx) Uge(a, b *Term) *Term { return c.cmp(OpUle, b, a) }
func (c *Ctx) Sgt(a, b *Term) *Term { return c.cmp(OpSlt, b, a) }
func (c *Ctx) Sge(a, b *Term) *Term { return c.cmp(OpSle, b, a) }

// ---------- bit-vector arithmetic ----------

func evalBin(op Op, w int, x, y uint64) (uint64, bool) {
	m := mask(w)
	switch op {
	case OpAdd:
		return (x + y) & m, true
	case OpSub:
		return (x - y) & m, true
	case OpMul:
		return (x * y) & m, true
	case OpUdiv:
		if y == 0 {
			return m, true
		}
		return x / y, true
	case OpUrem:
		if y == 0 {
			return x, true
		}
		return x % y, true
	case OpSdiv:
		sx, sy := toSigned(x, w), toSigned(y, w)
		if sy == 0 {
			if sx < 0 {
				return 1, true
			}
			return m, true
		}
		if sy == -1 {
			return uint64(-sx) & m, true
		}
		return uint64(sx/sy) & m, true
	case OpSrem:
		sx, sy := toSigned(x, w), toSigned(y, w)
		if sy == 0 {
			return x, true
		}
		if sy == -1 {
			return 0, true
		}
		return uint64(sx%sy) & m, true
	case OpBvAnd:
		return x & y, true
	case OpBvOr:
		return x | y, true
	case OpBvXor:
		return x ^ y, true
	case OpShl:
		if y >= uint64(w) {
			return 0, true
		}
		return (x << y) & m, true
	case OpLshr:
		if y >= uint64(w) {
			return 0, true
		}
		return x >> y, true
	case OpAshr:
		sx := toSigned(x, w)
		if y >= uint64(w) {
			if sx < 0 {
				return m, true
			}
			return 0, true
		}
		return uint64(sx>>y) & m, true
	}
	return 0, false
}

func (c *Ctx) Bin(op Op, a, b *Term) *Term {
	if a.W != b.W || a.W == 0 {
		panic(fmt.Sprintf("smt.Bin %s width mismatch %d %d", opNames[op], a.W, b.W))
	}
	w := a.W
	if a.Op == OpConst && b.Op == OpConst {
		v, _ := evalBin(op, w, a.Val, b.Val)
		return Const(w, v)
	}
	if a.CT && b.Op == OpConst {
		return c.mapCT(a, func(l *Term) *Term { return c.Bin(op, l, b) })
	}
	if b.CT && a.Op == OpConst {
		return c.mapCT(b, func(l *Term) *Term { return c.Bin(op, a, l) })
	}
	switch op {
	case OpAdd:
		if a.Op == OpConst && a.Val == 0 {
			return b
		}
		if b.Op == OpConst && b.Val == 0 {
			return a
		}
		// (x + k1) + k2
		if b.Op == OpConst && a.Op == OpAdd && a.A[1].Op == OpConst {
			return c.Bin(OpAdd, a.A[0], Const(w, a.A[1].Val+b.Val))
		}
		if a.Op == OpConst {
			a, b = b, a
		}
	case OpSub:
		if b.Op == OpConst && b.Val == 0 {
			return a
		}
		if a == b {
			return Const(w, 0)
		}
		if b.Op == OpConst {
			return c.Bin(OpAdd, a, Const(w, -b.Val))
		}
	case OpMul:
		if a.Op == OpConst {
			a, b = b, a
		}
		if b.Op == OpConst {
			if b.Val == 0 {
				return Const(w, 0)
			}
			if b.Val == 1 {
				return a
			}
		}
	case OpBvAnd:
		if a.Op == OpConst {
			a, b = b, a
		}
		if b.Op == OpConst {
			if b.Val == 0 {
				return Const(w, 0)
			}
			if b.Val == mask(w) {
				return a
			}
		}
		if a == b {
			return a
		}
	case OpBvOr:
		if a.Op == OpConst {
			a, b = b, a
		}
		if b.Op == OpConst {
			if b.Val == 0 {
				return a
			}
			if b.Val == mask(w) {
				return b
			}
		}
		if a == b {
			return a
		}
	case OpBvXor:
		if a.Op == OpConst {
			a, b = b, a
		}
		if b.Op == OpConst && b.Val == 0 {
			return a
		}
		if a == b {
			return Const(w, 0)
		}
	case OpShl, OpLshr, OpAshr:
		if b.Op == OpConst && b.Val == 0 {
			return a
		}
		if b.Op == OpConst && b.Val >= uint64(w) && op != OpAshr {
			return Const(w, 0)
		}
	}
	return c.mk(op, w, 0, 0, a, b)
}

func (c *Ctx) Add(a, b *Term) *Term { return c.Bin(OpAdd, a, b) }
func (c *Ctx) Sub(a, b *Term) *Term { return c.Bin(OpSub, a, b) }

func (c *Ctx) BvNot(a *Term) *Term {
	if a.Op == OpConst {
		return Const(a.W, ^a.Val)
	}
	if a.CT {
		return c.mapCT(a, func(l *Term) *Term { return Const(l.W, ^l.Val) })
	}
	if a.Op == OpBvNot {
		return a.A[0]
	}
	return c.mk(OpBvNot, a.W, 0, 0, a)
}

func (c *Ctx) Neg(a *Term) *Term {
	if a.Op == OpConst {
		return Const(a.W, -a.Val)
	}
	if a.CT {
		return c.mapCT(a, func(l *Term) *Term { return Const(l.W, -l.Val) })
	}
	return c.mk(OpNeg, a.W, 0, 0, a)
}

func (c *Ctx) Extract(a *Term, hi, lo int) *Term {
	if hi >= a.W || lo < 0 || hi < lo {
		panic("smt.Extract range")
	}
	w := hi - lo + 1
	if w == a.W {
		return a
	}
	if a.Op == OpConst {
		return Const(w, a.Val>>uint(lo))
	}
	if a.CT {
		return c.mapCT(a, func(l *Term) *Term { return Const(w, l.Val>>uint(lo)) })
	}
	if (a.Op == OpZext || a.Op == OpSext) && lo == 0 {
		in := a.A[0]
		if w == in.W {
			return in
		}
		if w < in.W {
			return c.Extract(in, hi, 0)
		}
		if a.Op == OpZext {
			return c.Zext(in, w)
		}
		return c.Sext(in, w)
	}
	if a.Op == OpIte && (a.A[1].Op == OpConst || a.A[2].Op == OpConst) {
		return c.Ite(a.A[0], c.Extract(a.A[1], hi, lo), c.Extract(a.A[2], hi, lo))
	}
	return c.mk(OpExtract, w, hi, lo, a)
}

func (c *Ctx) Zext(a *Term, w int) *Term {
	if w < a.W {
		panic("smt.Zext narrowing")
	}
	if w == a.W {
		return a
	}
	if a.Op == OpConst {
		return Const(w, a.Val)
	}
	if a.Op == OpZext {
		return c.Zext(a.A[0], w)
	}
	if a.CT {
		return c.mapCT(a, func(l *Term) *Term { return Const(w, l.Val) })
	}
	return c.mk(OpZext, w, 0, 0, a)
}

func (c *Ctx) Sext(a *Term, w int) *Term {
	if w < a.W {
		panic("smt.Sext narrowing")
	}
	if w == a.W {
		return a
	}
	if a.Op == OpConst {
		return Const(w, sextVal(a.Val, a.W, w))
	}
	if a.Op == OpZext {
		return c.Zext(a.A[0], w)
	}
	if a.CT {
		return c.mapCT(a, func(l *Term) *Term { return Const(w, sextVal(l.Val, l.W, w)) })
	}
	return c.mk(OpSext, w, 0, 0, a)
}

func (c *Ctx) Concat(hi, lo *Term) *Term {
	w := hi.W + lo.W
	if w > 64 {
		panic("smt.Concat too wide")
	}
	if hi.Op == OpConst && lo.Op == OpConst {
		return Const(w, hi.Val<<uint(lo.W)|lo.Val)
	}
	if hi.Op == OpConst && hi.Val == 0 {
		return c.Zext(lo, w)
	}
	return c.mk(OpConcat, w, 0, 0, hi, lo)
}

// Resize converts a to width w, sign- or zero-extending or truncating (Go conversion semantics).
func (c *Ctx) Resize(a *Term, w int, signed bool) *Term {
	switch {
	case w == a.W:
		return a
	case w < a.W:
		return c.Extract(a, w-1, 0)
	case signed:
		return c.Sext(a, w)
	default:
		return c.Zext(a, w)
	}
}

// ---------- evaluation under a model ----------

// Eval computes the value of t under the assignment vals (indexed by VarIdx).
// memo may be nil.
func Eval(t *Term, vals []uint64, memo map[*Term]uint64) uint64 {
	switch t.Op {
	case OpConst:
		return t.Val
	case OpVar:
		if t.VarIdx < len(vals) {
			return vals[t.VarIdx] & mask(maxw(t.W))
		}
		return 0
	}
	if memo != nil {
		if v, ok := memo[t]; ok {
			return v
		}
	}
	var r uint64
	switch t.Op {
	case OpVS:
		r = t.Vals[len(t.Vals)-1]
		for i, cd := range t.Conds {
			if Eval(cd, vals, memo) == 1 {
				r = t.Vals[i]
				break
			}
		}
	case OpNot:
		r = 1 - Eval(t.A[0], vals, memo)
	case OpAnd:
		r = Eval(t.A[0], vals, memo)
		if r == 1 {
			r = Eval(t.A[1], vals, memo)
		}
	case OpOr:
		r = Eval(t.A[0], vals, memo)
		if r == 0 {
			r = Eval(t.A[1], vals, memo)
		}
	case OpIte:
		if Eval(t.A[0], vals, memo) == 1 {
			r = Eval(t.A[1], vals, memo)
		} else {
			r = Eval(t.A[2], vals, memo)
		}
	case OpEq:
		r = b2u(Eval(t.A[0], vals, memo) == Eval(t.A[1], vals, memo))
	case OpUlt:
		r = b2u(Eval(t.A[0], vals, memo) < Eval(t.A[1], vals, memo))
	case OpUle:
		r = b2u(Eval(t.A[0], vals, memo) <= Eval(t.A[1], vals, memo))
	case OpSlt:
		w := t.A[0].W
		r = b2u(toSigned(Eval(t.A[0], vals, memo), w) < toSigned(Eval(t.A[1], vals, memo), w))
	case OpSle:
		w := t.A[0].W
		r = b2u(toSigned(Eval(t.A[0], vals, memo), w) <= toSigned(Eval(t.A[1], vals, memo), w))
	case OpBvNot:
		r = ^Eval(t.A[0], vals, memo) & mask(t.W)
	case OpNeg:
		r = -Eval(t.A[0], vals, memo) & mask(t.W)
	case OpExtract:
		r = (Eval(t.A[0], vals, memo) >> uint(t.Lo)) & mask(t.W)
	case OpZext:
		r = Eval(t.A[0], vals, memo)
	case OpSext:
		r = sextVal(Eval(t.A[0], vals, memo), t.A[0].W, t.W)
	case OpConcat:
		r = Eval(t.A[0], vals, memo)<<uint(t.A[1].W) | Eval(t.A[1], vals, memo)
	default:
		r, _ = evalBin(t.Op, t.W, Eval(t.A[0], vals, memo), Eval(t.A[1], vals, memo))
	}
	if memo != nil {
		memo[t] = r
	}
	return r
}

func maxw(w int) int {
	if w == 0 {
		return 1
	}
	return w
}

func b2u(b bool) uint64 {
	if b {
		return 1
	}
	return 0
}

var _ = bits.Len

// ---------- unary-predicate tabulation ----------

type supp struct {
	v int // VarIdx of the single variable, -1 none, -2 several
}

// Support returns the index of the only variable t depends on, -1 if t is
// constant, -2 if it depends on more than one variable.
func (c *Ctx) Support(t *Term) int {
	if t.Op == OpConst {
		return -1
	}
	if t.Op == OpVar {
		return t.VarIdx
	}
	if c.supp == nil {
		c.supp = map[*Term]int{}
	}
	if v, ok := c.supp[t]; ok {
		return v
	}
	r := -1
	kids := t.A[:t.N]
	if t.Op == OpVS {
		kids = t.Conds
	}
	for _, kid := range kids {
		s := c.Support(kid)
		if s == -1 {
			continue
		}
		if s == -2 || (r >= 0 && r != s) {
			r = -2
			break
		}
		r = s
	}
	c.supp[t] = r
	return r
}

// Set256 is a set of byte values.
type Set256 [4]uint64

func (s Set256) Has(b int) bool    { return s[b>>6]&(1<<uint(b&63)) != 0 }
func (s *Set256) Add(b int)        { s[b>>6] |= 1 << uint(b&63) }
func (s Set256) And(o Set256) Set256 { return Set256{s[0] & o[0], s[1] & o[1], s[2] & o[2], s[3] & o[3]} }
func (s Set256) Empty() bool       { return s[0]|s[1]|s[2]|s[3] == 0 }
func (s Set256) SubsetOf(o Set256) bool {
	return s[0]&^o[0] == 0 && s[1]&^o[1] == 0 && s[2]&^o[2] == 0 && s[3]&^o[3] == 0
}

var FullSet = Set256{^uint64(0), ^uint64(0), ^uint64(0), ^uint64(0)}

// Table tabulates a Bool term that depends on one 8-bit variable: the set of values of
// that variable for which it is true. ok is false if t is not of that form.
func (c *Ctx) Table(t *Term) (v int, set Set256, ok bool) {
	if t.W != 0 {
		return 0, set, false
	}
	v = c.Support(t)
	if v < 0 || c.Vars[v].W != 8 {
		return 0, set, false
	}
	if c.tables == nil {
		c.tables = map[*Term]Set256{}
	}
	if s, hit := c.tables[t]; hit {
		return v, s, true
	}
	vals := make([]uint64, v+1)
	for b := 0; b < 256; b++ {
		vals[v] = uint64(b)
		if Eval(t, vals, map[*Term]uint64{}) == 1 {
			set.Add(b)
		}
	}
	c.tables[t] = set
	return v, set, true
}

// VarSet returns the set of variable indices t depends on, as a bitset (cached).
func (c *Ctx) VarSet(t *Term) []uint64 {
	if t.Op == OpConst {
		return nil
	}
	if c.varsets == nil {
		c.varsets = map[*Term][]uint64{}
	}
	if s, ok := c.varsets[t]; ok {
		return s
	}
	var s []uint64
	if t.Op == OpVar {
		s = make([]uint64, t.VarIdx/64+1)
		s[t.VarIdx/64] |= 1 << uint(t.VarIdx%64)
	} else {
		kids := t.A[:t.N]
		if t.Op == OpVS {
			kids = t.Conds
		}
		for _, kid := range kids {
			a := c.VarSet(kid)
			if len(a) > len(s) {
				s = append(s, make([]uint64, len(a)-len(s))...)
			}
			for j, w := range a {
				s[j] |= w
			}
		}
		// do not alias the child's slice when it was the only contributor
		s = append([]uint64(nil), s...)
	}
	c.varsets[t] = s
	return s
}

func HasVar(set []uint64, v int) bool {
	return v/64 < len(set) && set[v/64]&(1<<uint(v%64)) != 0
}

func (s Set256) First() int {
	for b := 0; b < 256; b++ {
		if s.Has(b) {
			return b
		}
	}
	return -1
}
