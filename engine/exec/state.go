package exec

import (
	"go/types"

	"golang.org/x/tools/go/ssa"

	"symgo/smt"
)

type Frame struct {
	Fn        *ssa.Function
	Block     *ssa.BasicBlock
	Prev      *ssa.BasicBlock
	IP        int
	Regs      map[ssa.Value]Value
	Visits    map[*ssa.BasicBlock]int
	Call      ssa.CallInstruction // call in the caller that created this frame (nil for the root)
	Catch     bool                // vPanics marker: a panic unwinding to here yields true
	AtStart   bool                // phis done, nothing else executed in this block yet
	MemoKey   string              // non-empty: record the result of this pure call in State.Memo
	Nat       *NativeDriver       // non-nil: an engine-native frame (Fn, Block are nil)
	NatStep   int
	NatAcc    Value
	NatRet    Value
	NatHasRet bool
	Defers    []Ptr // mutexes whose Unlock was deferred in this frame (LIFO; the slice is never mutated in place)
}

type State struct {
	W      *World
	Frames []*Frame
	Heap   []Value       // objects with id >= W.nBase, indexed by id-W.nBase
	Over   map[int]Value // overrides of base objects (id < W.nBase)
	PC     []*smt.Term
	Memo   map[string]Value // results of pure stdlib calls on identical arguments
	Model  []uint64 // an assignment satisfying PC, nil if not known
	Steps  int
	UnknownSince int
	StubN        int // calls of environment stubs on this path (names their fresh inputs)
	Depth  int // nesting depth of fork regions (statistics)
}

func sameDefers(a, b []Ptr) bool {
	if len(a) != len(b) {
		return false
	}
	for i := range a {
		if a[i].Obj != b[i].Obj || !pathEq(a[i].Path, b[i].Path) {
			return false
		}
	}
	return true
}

func (f *Frame) clone() *Frame {
	n := *f
	n.Regs = make(map[ssa.Value]Value, len(f.Regs))
	for k, v := range f.Regs {
		n.Regs[k] = v
	}
	n.Visits = make(map[*ssa.BasicBlock]int, len(f.Visits))
	for k, v := range f.Visits {
		n.Visits[k] = v
	}
	return &n
}

func (s *State) clone() *State {
	n := &State{W: s.W, Steps: s.Steps, Depth: s.Depth, UnknownSince: s.UnknownSince, StubN: s.StubN}
	n.Frames = make([]*Frame, len(s.Frames))
	for i, f := range s.Frames {
		n.Frames[i] = f.clone()
	}
	n.Heap = append([]Value(nil), s.Heap...)
	if len(s.Over) > 0 {
		n.Over = make(map[int]Value, len(s.Over))
		for k, v := range s.Over {
			n.Over[k] = v
		}
	}
	n.PC = append([]*smt.Term(nil), s.PC...)
	n.Model = s.Model
	if len(s.Memo) > 0 {
		n.Memo = make(map[string]Value, len(s.Memo))
		for k, v := range s.Memo {
			n.Memo[k] = v
		}
	}
	return n
}

func (s *State) top() *Frame { return s.Frames[len(s.Frames)-1] }

// ---------- heap ----------

func (s *State) alloc(v Value) int {
	s.Heap = append(s.Heap, v)
	return s.W.nBase + len(s.Heap) - 1
}

func (s *State) hget(id int) Value {
	if id < s.W.nBase {
		if v, ok := s.Over[id]; ok {
			return v
		}
		return s.W.base[id]
	}
	return s.Heap[id-s.W.nBase]
}

func (s *State) hset(id int, v Value) {
	if id < s.W.nBase {
		if s.Over == nil {
			s.Over = map[int]Value{}
		}
		s.Over[id] = v
		return
	}
	s.Heap[id-s.W.nBase] = v
}

func child(v Value, i int) Value {
	switch v := v.(type) {
	case *StructVal:
		return v.F[i]
	case *ArrayVal:
		if i < 0 || i >= len(v.E) {
			unsupported("internal: array path index %d out of range %d", i, len(v.E))
		}
		return v.E[i]
	}
	unsupported("internal: child of %T", v)
	return nil
}

func withChild(v Value, i int, nv Value) Value {
	switch v := v.(type) {
	case *StructVal:
		n := &StructVal{F: append([]Value(nil), v.F...)}
		n.F[i] = nv
		return n
	case *ArrayVal:
		n := &ArrayVal{E: append([]Value(nil), v.E...)}
		n.E[i] = nv
		return n
	}
	unsupported("internal: withChild of %T", v)
	return nil
}

func (s *State) load(p Ptr) Value {
	if p.Obj == 0 {
		unsupported("internal: load through nil pointer (should have been an obligation)")
	}
	v := s.hget(p.Obj)
	for _, i := range p.Path {
		v = child(v, i)
	}
	return v
}

func storePath(root Value, path []int, nv Value) Value {
	if len(path) == 0 {
		return nv
	}
	return withChild(root, path[0], storePath(child(root, path[0]), path[1:], nv))
}

func (s *State) store(p Ptr, nv Value) {
	if p.Obj == 0 {
		unsupported("internal: store through nil pointer")
	}
	s.hset(p.Obj, storePath(s.hget(p.Obj), p.Path, nv))
}

// sliceArr returns the backing array of a slice.
func (s *State) sliceArr(sl Slice) *ArrayVal {
	if sl.Obj == 0 {
		return &ArrayVal{}
	}
	v := s.load(Ptr{sl.Obj, sl.Path})
	a, ok := v.(*ArrayVal)
	if !ok {
		unsupported("internal: slice backing is %T", v)
	}
	return a
}

func (s *State) sliceElems(sl Slice) []Value {
	if sl.Len == 0 {
		return nil
	}
	a := s.sliceArr(sl)
	return a.E[sl.Off : sl.Off+sl.Len]
}

// bytesOf returns the content of a []byte slice as a Str.
func (s *State) bytesOf(sl Slice) Str {
	el := s.sliceElems(sl)
	b := make([]*smt.Term, len(el))
	for i, e := range el {
		b[i] = e.(*smt.Term)
	}
	return Str{B: b}
}

// newByteSlice allocates a fresh []byte holding the bytes of str.
func (s *State) newByteSlice(str Str) Slice {
	a := &ArrayVal{E: make([]Value, len(str.B))}
	for i, t := range str.B {
		a.E[i] = t
	}
	id := s.alloc(a)
	return Slice{Obj: id, Off: 0, Len: len(str.B), Cap: len(str.B)}
}

func (s *State) newSlice(elems []Value) Slice {
	a := &ArrayVal{E: elems}
	id := s.alloc(a)
	return Slice{Obj: id, Off: 0, Len: len(elems), Cap: len(elems)}
}

// ---------- merging ----------

type merger struct {
	ctx  *smt.Ctx
	g    *smt.Term // condition under which "a" is taken
	fail bool
}

func (m *merger) val(a, b Value) Value {
	if m.fail {
		return nil
	}
	switch a := a.(type) {
	case nil:
		if b == nil {
			return nil
		}
	case *smt.Term:
		b, ok := b.(*smt.Term)
		if !ok || a.W != b.W {
			break
		}
		if a == b {
			return a
		}
		if a.IsConst() && b.IsConst() {
			if a.Val == b.Val {
				return a
			}
			if a.W == 64 {
				break // differing concrete int: a shape difference
			}
		}
		return m.ctx.Ite(m.g, a, b)
	case Str:
		b, ok := b.(Str)
		if !ok || len(a.B) != len(b.B) || a.R != b.R {
			break
		}
		if len(a.B) == 0 || &a.B[0] == &b.B[0] {
			return a
		}
		var out []*smt.Term
		for i := range a.B {
			x, y := a.B[i], b.B[i]
			if x == y || (x.IsConst() && y.IsConst() && x.Val == y.Val) {
				if out != nil {
					out[i] = x
				}
				continue
			}
			if out == nil {
				out = make([]*smt.Term, len(a.B))
				copy(out, a.B[:i])
			}
			out[i] = m.ctx.Ite(m.g, x, y)
		}
		if out == nil {
			return a
		}
		return Str{B: out, R: a.R}
	case Slice:
		b, ok := b.(Slice)
		if ok && a.Obj == b.Obj && a.Off == b.Off && a.Len == b.Len && a.Cap == b.Cap && pathEq(a.Path, b.Path) {
			return a
		}
	case Ptr:
		b, ok := b.(Ptr)
		if ok && a.Obj == b.Obj && pathEq(a.Path, b.Path) {
			return a
		}
	case SymPtr:
		b, ok := b.(SymPtr)
		if ok && a.Obj == b.Obj && a.Off == b.Off && a.N == b.N && pathEq(a.Path, b.Path) {
			if a.Idx == b.Idx {
				return a
			}
			a.Idx = m.ctx.Ite(m.g, a.Idx, b.Idx)
			return a
		}
	case MapRef:
		b, ok := b.(MapRef)
		if ok && a == b {
			return a
		}
	case IterRef:
		b, ok := b.(IterRef)
		if ok && a == b {
			return a
		}
	case *StructVal:
		b, ok := b.(*StructVal)
		if !ok || len(a.F) != len(b.F) {
			break
		}
		if a == b {
			return a
		}
		var out []Value
		for i := range a.F {
			r := m.val(a.F[i], b.F[i])
			if m.fail {
				return nil
			}
			if out == nil && !identical(r, a.F[i]) {
				out = append([]Value(nil), a.F...)
			}
			if out != nil {
				out[i] = r
			}
		}
		if out == nil {
			return a
		}
		return &StructVal{F: out}
	case *ArrayVal:
		b, ok := b.(*ArrayVal)
		if !ok || len(a.E) != len(b.E) {
			break
		}
		if a == b {
			return a
		}
		var out []Value
		for i := range a.E {
			r := m.val(a.E[i], b.E[i])
			if m.fail {
				return nil
			}
			if out == nil && !identical(r, a.E[i]) {
				out = append([]Value(nil), a.E...)
			}
			if out != nil {
				out[i] = r
			}
		}
		if out == nil {
			return a
		}
		return &ArrayVal{E: out}
	case Iface:
		b, ok := b.(Iface)
		if !ok {
			break
		}
		if a.T == nil && b.T == nil {
			return a
		}
		if a.T == nil || b.T == nil || !types.Identical(a.T, b.T) {
			break
		}
		v := m.val(a.V, b.V)
		if m.fail {
			return nil
		}
		return Iface{a.T, v}
	case Tuple:
		b, ok := b.(Tuple)
		if !ok || len(a) != len(b) {
			break
		}
		out := make(Tuple, len(a))
		for i := range a {
			out[i] = m.val(a[i], b[i])
			if m.fail {
				return nil
			}
		}
		return out
	case *Closure:
		b, ok := b.(*Closure)
		if !ok || a.Fn != b.Fn || len(a.Env) != len(b.Env) {
			break
		}
		if a == b {
			return a
		}
		env := make([]Value, len(a.Env))
		for i := range env {
			env[i] = m.val(a.Env[i], b.Env[i])
			if m.fail {
				return nil
			}
		}
		return &Closure{a.Fn, env}
	case NilFunc:
		if _, ok := b.(NilFunc); ok {
			return a
		}
	case *ssa.Function:
		if b, ok := b.(*ssa.Function); ok && a == b {
			return a
		}
	case *ssa.Builtin:
		if b, ok := b.(*ssa.Builtin); ok && a == b {
			return a
		}
	case *Ext:
		if b, ok := b.(*Ext); ok && (a == b || (a.Kind == b.Kind && a.ID == b.ID && a.ID != 0)) {
			return a
		}
	case Opaque:
		if _, ok := b.(Opaque); ok {
			return a
		}
	case *MapVal:
		b, ok := b.(*MapVal)
		if !ok || len(a.Keys) != len(b.Keys) {
			break
		}
		if a == b {
			return a
		}
		n := &MapVal{Keys: make([]Value, len(a.Keys)), Vals: make([]Value, len(a.Vals)), Index: map[string]int{}}
		for i := range a.Keys {
			n.Keys[i] = m.val(a.Keys[i], b.Keys[i])
			if m.fail {
				return nil
			}
			n.Vals[i] = m.val(a.Vals[i], b.Vals[i])
			if m.fail {
				return nil
			}
			if ks, ok := mapKeyString(n.Keys[i]); ok {
				n.Index[ks] = i
			}
		}
		return n
	case *IterState:
		b, ok := b.(*IterState)
		if !ok || a.Kind != b.Kind || a.Pos != b.Pos || len(a.Keys) != len(b.Keys) {
			break
		}
		if a == b {
			return a
		}
		n := &IterState{Kind: a.Kind, Pos: a.Pos}
		sv := m.val(a.S, b.S)
		if m.fail {
			return nil
		}
		n.S = sv.(Str)
		for i := range a.Keys {
			n.Keys = append(n.Keys, m.val(a.Keys[i], b.Keys[i]))
			n.Vals = append(n.Vals, m.val(a.Vals[i], b.Vals[i]))
			if m.fail {
				return nil
			}
		}
		return n
	}
	m.fail = true
	return nil
}

func identical(a, b Value) bool {
	switch a := a.(type) {
	case *smt.Term:
		b, ok := b.(*smt.Term)
		return ok && a == b
	case *StructVal:
		b, ok := b.(*StructVal)
		return ok && a == b
	case *ArrayVal:
		b, ok := b.(*ArrayVal)
		return ok && a == b
	case Str:
		b, ok := b.(Str)
		return ok && len(a.B) == len(b.B) && (len(a.B) == 0 || &a.B[0] == &b.B[0])
	case Slice:
		b, ok := b.(Slice)
		return ok && a.Obj == b.Obj && a.Off == b.Off && a.Len == b.Len && a.Cap == b.Cap && pathEq(a.Path, b.Path)
	case Ptr:
		b, ok := b.(Ptr)
		return ok && a.Obj == b.Obj && pathEq(a.Path, b.Path)
	case MapRef:
		b, ok := b.(MapRef)
		return ok && a == b
	case nil:
		return b == nil
	}
	return false
}

// reach marks heap objects reachable from v.
func (s *State) reach(v Value, live []bool) {
	switch v := v.(type) {
	case Slice:
		s.mark(v.Obj, live)
	case Ptr:
		s.mark(v.Obj, live)
	case SymPtr:
		s.mark(v.Obj, live)
	case MapRef:
		s.mark(v.Obj, live)
	case IterRef:
		s.mark(v.Obj, live)
	case *StructVal:
		for _, f := range v.F {
			s.reach(f, live)
		}
	case *ArrayVal:
		if len(v.E) > 0 {
			if _, isT := v.E[0].(*smt.Term); isT {
				return
			}
		}
		for _, e := range v.E {
			s.reach(e, live)
		}
	case Iface:
		s.reach(v.V, live)
	case Tuple:
		for _, e := range v {
			s.reach(e, live)
		}
	case *Closure:
		for _, e := range v.Env {
			s.reach(e, live)
		}
	case *MapVal:
		for i := range v.Keys {
			s.reach(v.Keys[i], live)
			s.reach(v.Vals[i], live)
		}
	case *IterState:
		for i := range v.Keys {
			s.reach(v.Keys[i], live)
			s.reach(v.Vals[i], live)
		}
	case *Ext:
		if inner, ok := v.V.(Value); ok && v.Kind == "boxed" {
			s.reach(inner, live)
		}
	}
}

func (s *State) mark(obj int, live []bool) {
	if obj < s.W.nBase {
		return
	}
	k := obj - s.W.nBase
	if k >= len(live) || live[k] {
		return
	}
	live[k] = true
	s.reach(s.Heap[k], live)
}

// gc drops run-time heap objects that are unreachable from the frames and from
// modified base objects.
func (s *State) gc() {
	live := make([]bool, len(s.Heap))
	for _, f := range s.Frames {
		for _, v := range f.Regs {
			s.reach(v, live)
		}
		if f.Nat != nil {
			s.reach(f.NatAcc, live)
			s.reach(f.NatRet, live)
			switch d := f.Nat.Data.(type) {
			case *replaceFuncData:
				s.reach(d.fn, live)
			case *ssa.Function:
			case *onceData:
				s.reach(d.fn, live)
				s.reach(d.p, live)
			}
		}
	}
	for _, v := range s.Over {
		s.reach(v, live)
	}
	for i := range s.Heap {
		if !live[i] {
			s.Heap[i] = nil
		}
	}
}

// tryMerge merges b into a if they have the same shape. It returns the merged
// state or nil.
func tryMerge(ctx *smt.Ctx, a, b *State) *State {
	if len(a.Frames) != len(b.Frames) {
		return nil
	}
	for i := range a.Frames {
		fa, fb := a.Frames[i], b.Frames[i]
		if fa.Fn != fb.Fn || fa.Block != fb.Block || fa.IP != fb.IP || fa.Catch != fb.Catch || fa.Call != fb.Call || fa.Nat != fb.Nat || fa.NatStep != fb.NatStep || fa.NatHasRet != fb.NatHasRet || !sameDefers(fa.Defers, fb.Defers) {
			return nil
		}
	}
	// common prefix of path conditions
	k := 0
	for k < len(a.PC) && k < len(b.PC) && a.PC[k] == b.PC[k] {
		k++
	}
	ga := ctx.AndN(a.PC[k:]...)
	gb := ctx.AndN(b.PC[k:]...)
	m := &merger{ctx: ctx, g: ga}
	n := &State{W: a.W, Steps: a.Steps, Depth: a.Depth, StubN: a.StubN}
	if b.StubN > n.StubN {
		n.StubN = b.StubN
	}
	if b.Steps > n.Steps {
		n.Steps = b.Steps
	}
	n.Frames = make([]*Frame, len(a.Frames))
	for i := range a.Frames {
		fa, fb := a.Frames[i], b.Frames[i]
		nf := *fa
		nf.Regs = make(map[ssa.Value]Value, len(fa.Regs))
		for key, va := range fa.Regs {
			vb, ok := fb.Regs[key]
			if !ok {
				continue // dead on one side, hence dead
			}
			r := m.val(va, vb)
			if m.fail {
				return nil
			}
			nf.Regs[key] = r
		}
		if fa.Nat != nil {
			nf.NatAcc = m.val(fa.NatAcc, fb.NatAcc)
			nf.NatRet = m.val(fa.NatRet, fb.NatRet)
			if m.fail {
				return nil
			}
		}
		nf.Visits = make(map[*ssa.BasicBlock]int, len(fa.Visits))
		for key, va := range fa.Visits {
			nf.Visits[key] = va
		}
		for key, vb := range fb.Visits {
			if vb > nf.Visits[key] {
				nf.Visits[key] = vb
			}
		}
		n.Frames[i] = &nf
	}
	la, lb := len(a.Heap), len(b.Heap)
	ln := la
	if lb > ln {
		ln = lb
	}
	n.Heap = make([]Value, ln)
	for i := 0; i < ln; i++ {
		var va, vb Value
		if i < la {
			va = a.Heap[i]
		}
		if i < lb {
			vb = b.Heap[i]
		}
		switch {
		case va == nil:
			n.Heap[i] = vb
		case vb == nil:
			n.Heap[i] = va
		default:
			r := m.val(va, vb)
			if m.fail {
				return nil
			}
			n.Heap[i] = r
		}
	}
	if len(a.Over) > 0 || len(b.Over) > 0 {
		n.Over = map[int]Value{}
		for id, va := range a.Over {
			vb, ok := b.Over[id]
			if !ok {
				vb = a.W.base[id]
			}
			r := m.val(va, vb)
			if m.fail {
				return nil
			}
			n.Over[id] = r
		}
		for id, vb := range b.Over {
			if _, ok := a.Over[id]; ok {
				continue
			}
			r := m.val(a.W.base[id], vb)
			if m.fail {
				return nil
			}
			n.Over[id] = r
		}
	}
	n.PC = append(append([]*smt.Term(nil), a.PC[:k]...), ctx.Or(ga, gb))
	if len(n.PC) > 0 && n.PC[len(n.PC)-1] == smt.True {
		n.PC = n.PC[:len(n.PC)-1]
	}
	n.Model = a.Model
	if n.Model == nil {
		n.Model = b.Model
	}
	for k, va := range a.Memo {
		if vb, ok := b.Memo[k]; ok && identical(va, vb) {
			if n.Memo == nil {
				n.Memo = map[string]Value{}
			}
			n.Memo[k] = va
		}
	}
	return n
}
