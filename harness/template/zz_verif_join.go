package template

// Conditional branches (C04: "element/attribute names chosen by conditional branches";
// C02/C14: static URL prefixes that differ between branches). Unit lemmas on join,
// joinNames and on how the joined information is used.

func refContainsName(list []string, x string) bool {
	r := false
	for _, s := range list {
		r = r || s == x
	}
	return r
}

// J1: join never forgets a possible element or attribute name
func vHarness_C04_joinnames() {
	n := vParam("n")
	aName, bName := vNondetString("aName", n), vNondetString("bName", n)
	var aNames, bNames []string
	if vParam("na") >= 1 {
		aNames = append(aNames, vNondetString("aN0", n))
	}
	if vParam("na") >= 2 {
		aNames = append(aNames, vNondetString("aN1", n))
	}
	if vParam("nb") >= 1 {
		bNames = append(bNames, vNondetString("bN0", n))
	}
	if vParam("nb") >= 2 {
		bNames = append(bNames, vNondetString("bN1", n))
	}
	a := context{state: stateTag, element: element{name: aName, names: aNames}}
	b := context{state: stateTag, element: element{name: bName, names: bNames}}
	if vParam("attr") == 1 {
		a = context{state: stateAttrName, element: element{name: "div"}, attr: attr{name: aName, names: aNames}}
		b = context{state: stateAttrName, element: element{name: "div"}, attr: attr{name: bName, names: bNames}}
	}
	// representation invariant of contexts: a non-empty names list contains the context's own name
	vAssume(len(aNames) == 0 || refContainsName(aNames, aName))
	vAssume(len(bNames) == 0 || refContainsName(bNames, bName))
	j := join(a, b, nil, "if")
	if j.state == stateError {
		vReach("rejected")
		return
	}
	vReach("joined")
	got := j.element.names
	cur := j.element.name
	if vParam("attr") == 1 {
		got, cur = j.attr.names, j.attr.name
	}
	has := func(x string) bool { return x == cur && len(got) == 0 || refContainsName(got, x) }
	ok := true
	for _, x := range aNames {
		ok = ok && has(x)
	}
	for _, x := range bNames {
		ok = ok && has(x)
	}
	ok = ok && (has(aName) || len(aNames) > 0) && (has(bName) || len(bNames) > 0)
	vAssert(ok, "join forgets a name that the element or attribute can have on one of the branches")
	vAssert(len(got) == 0 || refContainsName(got, cur), "join breaks the invariant that a non-empty names list contains the context's own name")
}

var joinURLAttrs = [][2]string{{"a", "href"}, {"form", "action"}, {"script", "src"}, {"a", "target"}, {"div", "dir"}}

// J2/J3: after branches with different static attribute prefixes an action must be refused
// in URL and enumerated contexts, whichever prefix join happened to keep
func vHarness_C02_joinprefix() {
	ea := joinURLAttrs[vParam("ctx")]
	va, vb := vNondetString("va", vParam("na")), vNondetString("vb", vParam("nb"))
	vASCII(va)
	vASCII(vb)
	a := vAttrContext(ea[0], ea[1], va, delimDoubleQuote, "")
	b := vAttrContext(ea[0], ea[1], vb, delimDoubleQuote, "")
	if vParam("flagb") == 1 {
		b.attr.ambiguousValue = true // b is itself the result of an earlier join
	}
	if vParam("flaga") == 1 {
		a.attr.ambiguousValue = true // so is a (nested branches in the first list)
	}
	j := join(a, b, nil, "if")
	if j.state == stateError {
		return
	}
	differ := va != vb || vParam("flagb") == 1 || vParam("flaga") == 1
	if !differ {
		return
	}
	vReach("ambiguous")
	vAssert(j.attr.ambiguousValue, "join does not record that the static attribute prefix is ambiguous")
	_, err := sanitizerForContext(j)
	vAssert(err != nil, "an action is accepted after an ambiguous static prefix in a URL or enumerated attribute")
}

// J4: the end of a start tag whose element name is conditional
func vHarness_C04_voidnames() {
	voids := []string{"br", "img", "input", "link"}
	others := []string{"object", "script", "div", "a"}
	v, o := voids[vParam("v")], others[vParam("o")]
	c := context{state: stateTag, element: element{name: v, names: []string{o, v}}}
	if vParam("swap") == 1 {
		c.element.name = o
	}
	s := vNondetString("s", vParam("n"))
	vASCII(s)
	vAssume(len(s) > 0 && s[0] == '>')
	c1, _ := contextAfterText(c, []byte(s))
	if c1.state == stateError {
		return
	}
	vReach("closed")
	keeps := refContainsName(c1.element.names, o) || c1.element.name == o
	vAssert(keeps, "after the '>' of a start tag with a conditional name the non-void alternative is forgotten")
}

// J5: an action in an attribute whose element name is conditional is accepted only if the
// reviewed policy gives both alternatives the same class (and lists both)
func vHarness_C04_condnames() {
	le, la := vParam("le"), vParam("la")
	e1, e2 := vNondetString("e1", le), vNondetString("e2", le)
	a := vNondetString("a", la)
	c := vAttrContext(e1, a, "", delimDoubleQuote, "")
	c.element.names = []string{e1, e2}
	if vParam("swap") == 1 {
		c.element.name = e2
	}
	_, err := sanitizerForContext(c)
	if err != nil {
		vReach("rejected")
		return
	}
	vReach("accepted")
	w1, w2 := refAttrClass(e1, a, ""), refAttrClass(e2, a, "")
	vAssert(w1 != refClassreject && w2 != refClassreject, "an action is accepted although one alternative of a conditional element name is not listed for the attribute")
	vAssert(w1 == w2, "an action is accepted although the alternatives of a conditional element name have different reviewed classes")
}
