package exec

import (
	"go/types"
	"strconv"

	"golang.org/x/tools/go/ssa"

	"symgo/smt"
)

// NativeDriver is engine code that needs to call back into interpreted code
// (ReplaceAllStringFunc, sync.Once.Do). It runs as a frame of its own.
type NativeDriver struct {
	Kind   string
	Data   interface{}
	Resume func(x *Exec, s *State, f *Frame)
}

// nativeCall as an outcome value asks the interpreter to push a native frame.
type nativeCall struct{ d *NativeDriver }

// callValue pushes a frame for a function value; the result is delivered to the
// native frame below it.
func (x *Exec) callValue(s *State, fv Value, args []Value) {
	switch fn := fv.(type) {
	case *ssa.Function:
		if in, ok := x.W.intrinsics[fn.String()]; ok {
			outs := in(x, s, args, nil)
			if len(outs) != 1 || outs[0].Cond != smt.True || outs[0].Panic != "" {
				unsupported("forking intrinsic %s used as a callback", fn)
			}
			f := s.top()
			f.NatRet, f.NatHasRet = outs[0].Val, true
			return
		}
		x.pushFrame(s, fn, args, nil, nil)
	case *Closure:
		x.pushFrame(s, fn.Fn, args, fn.Env, nil)
	default:
		unsupported("callback of %T", fv)
	}
}

// deliver puts the result of the current instruction into the state and advances.
func (x *Exec) deliver(cs *State, v Value) {
	if lv, ok := v.(lazyVal); ok {
		v = lv.mk(cs)
	}
	if nc, ok := v.(nativeCall); ok {
		f := cs.top()
		call, _ := f.Block.Instrs[f.IP].(ssa.CallInstruction)
		nf := &Frame{Nat: nc.d, Call: call, Regs: map[ssa.Value]Value{}, Visits: map[*ssa.BasicBlock]int{}}
		cs.Frames = append(cs.Frames, nf)
		return
	}
	setResult(cs, v)
}

type onceData struct {
	p  Ptr
	fn Value
}

func inOnceDo(x *Exec, s *State, a []Value, _ *ssa.Call) []Outcome {
	p := a[0].(Ptr)
	if t, ok := s.load(p).(*smt.Term); ok && t == smt.True {
		return one(nil)
	}
	return []Outcome{{Cond: smt.True, Val: nativeCall{&NativeDriver{Kind: "Once.Do", Data: &onceData{p, a[1]}, Resume: func(x *Exec, s *State, f *Frame) {
		d := f.Nat.Data.(*onceData)
		if !f.NatHasRet {
			x.callValue(s, d.fn, nil)
			return
		}
		s.store(d.p, smt.True)
		x.popFrame(s, nil)
	}}}}}
}

func parseFloatErr(x *Exec, cs string) Value {
	if _, err := strconv.ParseFloat(cs, 64); err != nil {
		return Iface{T: x.W.ErrType, V: x.W.newExt("error", nil)}
	}
	return Iface{}
}

func (x *Exec) noteAssume(a string) {
	for _, e := range x.Assumes {
		if e == a {
			return
		}
	}
	x.Assumes = append(x.Assumes, a)
}

// inJSONMarshal models encoding/json.Marshal(v) for v of dynamic type string by running
// the real encoding/json.appendString[string](nil, v, true) from the standard library's
// SSA (what stringEncoder does with escapeHTML set); other dynamic types are outside
// the encodable fragment.
func inJSONMarshal(x *Exec, s *State, a []Value, _ *ssa.Call) []Outcome {
	iv, ok := a[0].(Iface)
	if !ok || iv.T == nil {
		unsupported("json.Marshal of nil/unknown value")
	}
	if !isString(iv.T) {
		unsupported("json.Marshal of dynamic type %s (only string data is encoded by the engine)", iv.T)
	}
	fn := x.W.jsonAppendString()
	if fn == nil {
		unsupported("encoding/json.appendString[string] not found in the SSA program")
	}
	arg := iv.V
	return []Outcome{{Cond: smt.True, Val: nativeCall{&NativeDriver{Kind: "json.Marshal", Data: fn, Resume: func(x *Exec, s *State, f *Frame) {
		if !f.NatHasRet {
			x.callValue(s, fn, []Value{Slice{}, arg, smt.True})
			return
		}
		x.popFrame(s, Tuple{f.NatRet, Iface{}})
	}}}}}
}

// ---------- reflect-based helpers of the repository, modelled on the finite set of
// dynamic types the harnesses pass (strings, the safe types, pointers to them, nil) ----------

func hasMethod(t types.Type, name string) bool {
	ms := types.NewMethodSet(t)
	for i := 0; i < ms.Len(); i++ {
		if ms.At(i).Obj().Name() == name {
			return true
		}
	}
	return false
}

// inIndirect is safehtmlutil.Indirect: dereference pointers down to the base value (or a nil pointer).
func inIndirect(x *Exec, s *State, a []Value, _ *ssa.Call) []Outcome {
	iv := a[0].(Iface)
	for iv.T != nil {
		pt, ok := iv.T.Underlying().(*types.Pointer)
		if !ok {
			break
		}
		p, isP := iv.V.(Ptr)
		if !isP {
			unsupported("Indirect: pointer-typed interface holding %T", iv.V)
		}
		if p.Obj == 0 {
			break
		}
		iv = Iface{T: pt.Elem(), V: s.load(p)}
	}
	return one(iv)
}

// inIndirectToStringer is indirectToStringerOrError (both copies).
func inIndirectToStringer(x *Exec, s *State, a []Value, _ *ssa.Call) []Outcome {
	iv := a[0].(Iface)
	for iv.T != nil {
		if hasMethod(iv.T, "String") || hasMethod(iv.T, "Error") {
			break
		}
		pt, ok := iv.T.Underlying().(*types.Pointer)
		if !ok {
			break
		}
		p, isP := iv.V.(Ptr)
		if !isP {
			unsupported("indirectToStringerOrError: pointer-typed interface holding %T", iv.V)
		}
		if p.Obj == 0 {
			break
		}
		iv = Iface{T: pt.Elem(), V: s.load(p)}
	}
	return one(iv)
}
