package template

import (
	"text/template"
	"text/template/parse"
)

// C06 (analysis half): contextual rewriting is applied to each action exactly once,
// whatever the order of first executions. Hand-built set
//
//	h: T0 {{.}}        a: <p> {{template "h" .}}        b: <p title=" {{template "h" .}} ">
//	a2: <i> {{template "h" .}}     bad: <p title="     d: {{template "h" .}} <p title="
//
// Up to four calls are chosen symbolically among lookupAndEscapeTemplate of these six (bad and
// d must fail, the others succeed); commit really rewrites the trees. Afterwards the pipeline of the action in h and in every
// template derived from h must be the original command followed by exactly the sanitizer
// chain of the context the action is in - not by chains left over from an earlier analysis
// of the tree it was copied from.

func c06PipeNames(a *parse.ActionNode) []string {
	var out []string
	for _, cmd := range a.Pipe.Cmds {
		if len(cmd.Args) == 0 {
			out = append(out, "?")
			continue
		}
		switch n := cmd.Args[0].(type) {
		case *parse.IdentifierNode:
			out = append(out, n.Ident)
		case *parse.DotNode:
			out = append(out, ".")
		default:
			out = append(out, "?")
		}
	}
	return out
}

func c06Action(t *parse.Tree) *parse.ActionNode {
	if t == nil || t.Root == nil {
		return nil
	}
	for _, n := range t.Root.Nodes {
		if a, ok := n.(*parse.ActionNode); ok {
			return a
		}
	}
	return nil
}

func c06Check(a *parse.ActionNode, want []string, what string, knownClass bool) {
	got := c06PipeNames(a)
	ok := len(got) == 1+len(want) && got[0] == "."
	for i := 0; ok && i < len(want); i++ {
		ok = got[1+i] == want[i]
	}
	vAssertKnown(ok, "an action was rewritten more than once: its pipeline is not the original command followed by the sanitizers of its context ("+what+")", "C06-derived-from-rewritten-tree", knownClass)
	vAssert(ok || knownClass, "an action was rewritten more than once: its pipeline is not the original command followed by the sanitizers of its context ("+what+")")
}

func vHarness_C06_order() {
	s0 := vNondetString("t0", vParam("n0"))
	vASCII(s0)
	for i := 0; i < len(s0); i++ {
		vAssume(s0[i] != '<' && s0[i] != '>' && s0[i] != '"' && s0[i] != '\'' && s0[i] != '&' && s0[i] != '=' && s0[i] != '`' && !tokWS(s0[i]) && s0[i] != 0)
	}
	action := &parse.ActionNode{NodeType: parse.NodeAction, Pipe: c01DotPipe()}
	hTree := &parse.Tree{Name: "h", Root: &parse.ListNode{NodeType: parse.NodeList, Nodes: []parse.Node{c01TextNode(s0), action}}}
	call := func() *parse.TemplateNode {
		return &parse.TemplateNode{NodeType: parse.NodeTemplate, Name: "h", Pipe: c01DotPipe()}
	}
	list := func(ns ...parse.Node) *parse.ListNode { return &parse.ListNode{NodeType: parse.NodeList, Nodes: ns} }
	// a, a2: callers of h in element content; b: a caller inside a quoted attribute value;
	// bad: cannot be contextualized and calls nothing; d: calls h in element content and then
	// cannot be contextualized (its analysis leaves h's edits pending)
	trees := []*parse.Tree{
		{Name: "a", Root: list(c01TextNode("<p>"), call())},
		{Name: "b", Root: list(c01TextNode(`<p title="`), call(), c01TextNode(`">`))},
		hTree,
		{Name: "bad", Root: list(c01TextNode(`<p title="`))},
		{Name: "a2", Root: list(c01TextNode("<i>"), call())},
		{Name: "d", Root: list(call(), c01TextNode(`<p title="`))},
	}
	tt := template.New("a")
	ns := &nameSpace{set: map[string]*Template{}}
	ns.esc = makeEscaper(ns)
	var tmA *Template
	for _, tr := range trees {
		t, err := tt.AddParseTree(tr.Name, tr)
		if err != nil {
			return
		}
		tm := &Template{text: t, Tree: tr, nameSpace: ns}
		ns.set[tr.Name] = tm
		if tmA == nil {
			tmA = tm
		}
	}
	names := [6]string{"a", "b", "h", "bad", "a2", "d"}
	mustFail := [6]bool{false, false, false, true, false, true}
	done := [6]bool{}
	// class of the known finding: h was analysed and rewritten for element content before the
	// copy for the attribute context was taken from it
	textFirst := false
	calls := vParam("calls")
	for k := 0; k < calls; k++ {
		var op int
		switch k {
		case 0:
			op = vNondetInt("op0", 0, 5)
		case 1:
			op = vNondetInt("op1", 0, 5)
		case 2:
			op = vNondetInt("op2", 0, 5)
		default:
			op = vNondetInt("op3", 0, 5)
		}
		_, err := tmA.lookupAndEscapeTemplate(names[op])
		if mustFail[op] {
			vAssert(err != nil, "a template that cannot be contextualized is accepted")
		} else {
			vAssert(err == nil, "a template of the set is refused although it is analysable on its own")
		}
		if op == 1 && !done[1] && (done[0] || done[2] || done[4] || done[5]) {
			textFirst = true
		}
		done[op] = true
	}
	textChain, errT := sanitizerForContext(context{})
	attrChain, errA := sanitizerForContext(vAttrContext("p", "title", s0, delimDoubleQuote, ""))
	if errT != nil || errA != nil {
		return
	}
	if done[0] || done[2] || done[4] {
		// h was executed, on its own or through an accepted caller: its action carries the
		// element-content sanitizers, once
		vReach("text-use")
		c06Check(action, textChain, "h, used in element content", false)
	}
	if done[1] {
		vReach("attr-use")
		var derived *parse.ActionNode
		d := tt.Lookup("h$htmltemplate_StateAttr_DelimDoubleQuote_attrTitle_elementP")
		vAssert(d != nil, "the template derived for the attribute context was not added to the set")
		if d != nil {
			derived = c06Action(d.Tree)
		}
		if derived != nil {
			c06Check(derived, attrChain, "the copy of h derived for the title attribute", textFirst)
		}
	}
}
