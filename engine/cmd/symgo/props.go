package main

var props = map[string]*Prop{}

func reg(p *Prop) { props[p.ID] = p }

const identAlphabet = "abzAZ09-_ \n\x00:.$"

func init() {
	reg(&Prop{
		ID:    "C18",
		Title: "Identifier constructors admit only [A-Za-z][-_A-Za-z0-9]*, keep constant prefix",
		Harnesses: []HarnessSpec{
			{Pkg: "safehtml", Name: "vHarness_C18_constant", Quick: []ParamRange{{"n", 0, 8}}, Thorough: []ParamRange{{"n", 0, 16}}, Reach: []string{"accepted"},
				Desc: "IdentifierFromConstant(v): no panic => result == v and matches the byte-level recogniser"},
			{Pkg: "safehtml", Name: "vHarness_C18_prefix", Quick: []ParamRange{{"np", 0, 3}, {"n", 0, 6}}, Thorough: []ParamRange{{"np", 0, 4}, {"n", 0, 12}}, Reach: []string{"accepted"},
				Desc: "IdentifierFromConstantPrefix(p, v): no panic => result == p-v and matches the recogniser"},
		},
		Probes: []ProbeSpec{
			{Pkg: "safehtml", Name: "vProbe_C18_constant", NArgs: 1, Alphabet: identAlphabet, MaxLen: 8, N: 300, TestDir: ".", Extra: []string{"a\n", "a\xc3\xa9", "\xe2\x84\xaa", "A-_9"}},
			{Pkg: "safehtml", Name: "vProbe_C18_prefix", NArgs: 2, Alphabet: identAlphabet, MaxLen: 6, N: 300, Extra: []string{"a", "a\n", "b-", ""}},
		},
		Functions: []string{"safehtml.IdentifierFromConstant", "safehtml.IdentifierFromConstantPrefix", "safehtml.Identifier.String",
			"regexp patterns startsWithAlphabetPattern, onlyAlphanumericsOrHyphenPattern (read from the current source by executing package init)"},
		Bounds: map[string]string{
			"quick":    "value: every byte string of length 0..8 (constant form); prefix 0..3 bytes x value 0..6 bytes (prefix form); all 256 byte values per position",
			"thorough": "value: every byte string of length 0..16; prefix 0..4 x value 0..12",
		},
		Outside:    []string{"strings longer than the bounds", "the compile-time constant requirement on the prefix (C19)"},
		Intrinsics: []string{"regexp.MustCompile/MatchString = symbolic Thompson simulation of regexp/syntax's compiled program over UTF-8 decodings", "fmt.Sprintf feeding panic: not evaluated"},
	})
}
