#!/bin/bash
# usage: tools/run_all.sh [quick|thorough] [ids...]   runs the registered checks one after another
tier=${1:-quick}; shift
ids=${@:-C01 C02 C03 C04 C05 C06 C08 C10 C11 C12 C13 C14 C15 C16 C17 C18 C20}
cd "$(dirname "$0")/.."
rc=0
for id in $ids; do
  s=$(date +%s)
  out=$(timeout ${RUN_TIMEOUT:-86400} ./checks/run.sh $id $tier 2>&1); code=$?
  e=$(( $(date +%s) - s ))
  echo "== $id $tier exit=$code ${e}s"
  echo "$out" | grep -E "^(VIOLATION|INCONCLUSIVE|KNOWN-FINDING|STALE-FINDING|OK)" | cut -c1-160
  [ $code -ne 0 ] && rc=1
done
exit $rc
