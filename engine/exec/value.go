// Package exec is a symbolic interpreter for go/ssa: concrete shape, symbolic
// content, with merging of states at post-dominators.
package exec

import (
	"fmt"
	"go/types"
	"strings"

	"golang.org/x/tools/go/ssa"

	"symgo/smt"
)

// Value is one of: *smt.Term (bool and integer scalars), Str, Slice, Ptr,
// *StructVal, *ArrayVal, Iface, MapRef, *Closure, *ssa.Function, *ssa.Builtin,
// Tuple, Opaque, *Ext, IterRef, nil (nil func).
type Value interface{}

// Str is an immutable Go string: a vector of 8-bit terms.
type Str struct {
	B []*smt.Term
	// R, when non-nil, records that B is exactly the UTF-8 encoding of these runes
	// (known because the engine itself encoded them); it spares re-decoding.
	R *RuneMeta
}

// RuneMeta: rune i starts at byte offset Off[i]; Off has one extra entry len(B).
type RuneMeta struct {
	Off   []int
	Runes []*smt.Term
}

// Slice refers to elements [Off, Off+Len) of the ArrayVal found at (Obj, Path).
type Slice struct {
	Obj  int // 0 = nil slice
	Path []int
	Off  int
	Len  int
	Cap  int
}

// Ptr points into heap object Obj along Path (struct field / array element indices).
type Ptr struct {
	Obj  int // 0 = nil
	Path []int
}

// SymPtr points to element Idx (symbolic, in bounds) of the scalar array at (Obj, Path+Off).
type SymPtr struct {
	Obj  int
	Path []int
	Off  int
	N    int
	Idx  *smt.Term
}

type StructVal struct{ F []Value }
type ArrayVal struct{ E []Value }

type Iface struct {
	T types.Type // nil = nil interface
	V Value
}

type MapRef struct{ Obj int } // 0 = nil map

type MapVal struct {
	Keys  []Value
	Vals  []Value
	Index map[string]int // concrete keys only
}

type Closure struct {
	Fn  *ssa.Function
	Env []Value
}

type Tuple []Value

// NilFunc is the nil value of function type.
type NilFunc struct{}

// Opaque is a value the engine does not model; inspecting it is INCONCLUSIVE.
type Opaque struct{ Why string }

// Ext is an engine-native handle (compiled regexp, error token, ...).
type Ext struct {
	Kind string
	V    interface{}
	ID   int
}

// IterRef refers to iterator state kept in the heap.
type IterRef struct{ Obj int }

type IterState struct {
	Kind string // "string" or "map"
	S    Str
	Pos  int
	Keys []Value
	Vals []Value
}

// Unsupported is panicked by the interpreter when it meets something it cannot encode.
type Unsupported struct{ Msg string }

func (u Unsupported) Error() string { return "unsupported: " + u.Msg }

func unsupported(format string, args ...interface{}) {
	panic(Unsupported{fmt.Sprintf(format, args...)})
}

// ---------- type helpers ----------

func basicWidth(k types.BasicKind) (w int, signed bool, ok bool) {
	switch k {
	case types.Bool, types.UntypedBool:
		return 0, false, true
	case types.Int, types.Int64, types.UntypedInt:
		return 64, true, true
	case types.Uint, types.Uint64, types.Uintptr:
		return 64, false, true
	case types.Int8:
		return 8, true, true
	case types.Uint8:
		return 8, false, true
	case types.Int16:
		return 16, true, true
	case types.Uint16:
		return 16, false, true
	case types.Int32, types.UntypedRune:
		return 32, true, true
	case types.Uint32:
		return 32, false, true
	}
	return 0, false, false
}

func scalarInfo(t types.Type) (w int, signed bool, ok bool) {
	if b, isB := t.Underlying().(*types.Basic); isB {
		return basicWidth(b.Kind())
	}
	return 0, false, false
}

func isString(t types.Type) bool {
	b, ok := t.Underlying().(*types.Basic)
	return ok && (b.Kind() == types.String || b.Kind() == types.UntypedString)
}

func isFloat(t types.Type) bool {
	b, ok := t.Underlying().(*types.Basic)
	return ok && b.Info()&(types.IsFloat|types.IsComplex) != 0
}

func zero(t types.Type) Value {
	switch u := t.Underlying().(type) {
	case *types.Basic:
		if isString(t) {
			return Str{}
		}
		if w, _, ok := basicWidth(u.Kind()); ok {
			return smt.Const(w, 0)
		}
		if u.Kind() == types.UnsafePointer {
			return Ptr{}
		}
		if u.Kind() == types.UntypedNil {
			return nil
		}
		return Opaque{"zero of " + t.String()}
	case *types.Pointer:
		return Ptr{}
	case *types.Slice:
		return Slice{}
	case *types.Map:
		return MapRef{}
	case *types.Interface:
		return Iface{}
	case *types.Signature:
		return NilFunc{}
	case *types.Chan:
		return Opaque{"chan"}
	case *types.Struct:
		s := &StructVal{F: make([]Value, u.NumFields())}
		for i := range s.F {
			s.F[i] = zero(u.Field(i).Type())
		}
		return s
	case *types.Array:
		a := &ArrayVal{E: make([]Value, int(u.Len()))}
		if len(a.E) > 0 {
			z := zero(u.Elem())
			for i := range a.E {
				a.E[i] = z // zero values are immutable, sharing is fine
			}
		}
		return a
	case *types.Tuple:
		tu := make(Tuple, u.Len())
		for i := range tu {
			tu[i] = zero(u.At(i).Type())
		}
		return tu
	}
	return Opaque{"zero of " + t.String()}
}

// ---------- string helpers ----------

func StrOf(s string) Str {
	b := make([]*smt.Term, len(s))
	for i := 0; i < len(s); i++ {
		b[i] = smt.Byte(s[i])
	}
	return Str{B: b}
}

// Concrete returns the Go string if every byte is constant.
func (s Str) Concrete() (string, bool) {
	var sb strings.Builder
	for _, t := range s.B {
		if !t.IsConst() {
			return "", false
		}
		sb.WriteByte(byte(t.Val))
	}
	return sb.String(), true
}

func (s Str) String() string {
	var sb strings.Builder
	sb.WriteByte('"')
	for _, t := range s.B {
		if t.IsConst() {
			c := byte(t.Val)
			if c >= 0x20 && c < 0x7f && c != '"' && c != '\\' {
				sb.WriteByte(c)
			} else {
				fmt.Fprintf(&sb, "\\x%02x", c)
			}
		} else {
			sb.WriteString("?")
		}
	}
	sb.WriteByte('"')
	return sb.String()
}

func concatStr(a, b Str) Str {
	if len(a.B) == 0 {
		return b
	}
	if len(b.B) == 0 {
		return a
	}
	r := make([]*smt.Term, 0, len(a.B)+len(b.B))
	r = append(r, a.B...)
	r = append(r, b.B...)
	return Str{B: r}
}

func termIsConcrete(v Value) (uint64, bool) {
	t, ok := v.(*smt.Term)
	if !ok || !t.IsConst() {
		return 0, false
	}
	return t.Val, true
}

func constInt(v Value) (int, bool) {
	t, ok := v.(*smt.Term)
	if !ok || !t.IsConst() {
		return 0, false
	}
	if t.W == 64 {
		return int(int64(t.Val)), true
	}
	return int(t.Val), true
}

func intConst(i int) *smt.Term { return smt.Const(64, uint64(int64(i))) }

// mapKeyString returns a canonical string for a concrete map key, or "" if the key
// has symbolic content.
func mapKeyString(k Value) (string, bool) {
	switch k := k.(type) {
	case Str:
		s, ok := k.Concrete()
		if !ok {
			return "", false
		}
		return "s:" + s, true
	case *smt.Term:
		if !k.IsConst() {
			return "", false
		}
		return fmt.Sprintf("i%d:%d", k.W, k.Val), true
	case Ptr:
		return fmt.Sprintf("p:%d/%v", k.Obj, k.Path), true
	case Iface:
		if k.T == nil {
			return "n:", true
		}
		in, ok := mapKeyString(k.V)
		if !ok {
			return "", false
		}
		return "f:" + k.T.String() + "/" + in, true
	case *StructVal:
		var sb strings.Builder
		sb.WriteString("S{")
		for _, f := range k.F {
			s, ok := mapKeyString(f)
			if !ok {
				return "", false
			}
			sb.WriteString(s)
			sb.WriteByte(',')
		}
		sb.WriteString("}")
		return sb.String(), true
	}
	unsupported("map key kind %T", k)
	return "", false
}

func (m *MapVal) clone() *MapVal {
	n := &MapVal{Keys: append([]Value(nil), m.Keys...), Vals: append([]Value(nil), m.Vals...), Index: make(map[string]int, len(m.Index)+1)}
	for k, v := range m.Index {
		n.Index[k] = v
	}
	return n
}

func pathAppend(p []int, i int) []int {
	n := make([]int, len(p)+1)
	copy(n, p)
	n[len(p)] = i
	return n
}

func pathEq(a, b []int) bool {
	if len(a) != len(b) {
		return false
	}
	for i := range a {
		if a[i] != b[i] {
			return false
		}
	}
	return true
}
