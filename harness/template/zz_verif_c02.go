package template

// C02: untrusted strings never reach code contexts; URLs never become javascript:.
// The code-context list mirrors /verif/policy/code_contexts.json.

func refRelHasWord(rel, w string) bool {
	tok := ""
	hit := false
	for i := 0; i <= len(rel); i++ {
		if i == len(rel) || rel[i] == ' ' {
			if tok == w {
				hit = true
			}
			tok = ""
			continue
		}
		tok += rel[i : i+1]
	}
	return hit
}

// refIsCodeAttr: the value of attribute a on element e is code, or a URL whose resource is
// executed / applied as code or style.
func refIsCodeAttr(e, a, rel string) bool {
	if len(a) >= 2 && a[0] == 'o' && a[1] == 'n' {
		return true
	}
	if a == "style" || a == "srcdoc" {
		return true
	}
	if a == "src" && (e == "script" || e == "iframe" || e == "frame" || e == "embed") {
		return true
	}
	if (a == "data" && e == "object") || (a == "href" && e == "base") {
		return true
	}
	if e == "link" && a == "href" {
		return refRelHasWord(rel, "stylesheet") || refRelHasWord(rel, "import") || refRelHasWord(rel, "manifest") || refRelHasWord(rel, "modulepreload")
	}
	return false
}

var c02Rels = []string{"", " stylesheet ", " icon ", " alternate stylesheet ", " manifest ", " preload modulepreload ", " nofollow ", " modulepreload ", " x-prefetch stylesheet ", " import ", " apple-touch-icon stylesheet "}

func vHarness_C02_codeattr() {
	le, la, n := vParam("le"), vParam("la"), vParam("n")
	rel := c02Rels[vParam("rel")]
	e := vNondetString("e", le)
	a := vNondetString("a", la)
	d := vNondetString("d", n)
	if !refIsCodeAttr(e, a, rel) {
		return
	}
	vReach("code-context")
	chain, err := sanitizerForContext(vAttrContext(e, a, "", delimDoubleQuote, rel))
	if err != nil {
		vReach("rejected")
		return
	}
	vReach("typed")
	_, derr := vApplyChain(chain, d)
	known := e == "link" && a == "href" && refRelHasURLVal(rel)
	vAssertKnown(derr != nil, "a plain string is accepted in a code context (attribute)", "C02-rel-downgrade", known)
}

func vHarness_C02_codecontent() {
	le, n := vParam("le"), vParam("n")
	e := vNondetString("e", le)
	d := vNondetString("d", n)
	vAssume(e == "script" || e == "style")
	vReach("code-context")
	chain, err := sanitizerForContext(context{state: stateSpecialElementBody, element: element{name: e}})
	if err != nil {
		return
	}
	_, derr := vApplyChain(chain, d)
	vAssert(derr != nil, "a plain string is accepted in script or style element content")
}

func vHarness_C02_comment() {
	d := vNondetString("d", vParam("n"))
	chain, err := sanitizerForContext(context{state: stateHTMLCmt})
	if err != nil {
		return
	}
	out, derr := vApplyChain(chain, d)
	vReach("ran")
	vAssert(derr == nil && out == "", "data interpolated into an HTML comment is not dropped")
}

// c02IsHTMLEscaper: the two run-time functions that HTML-escape plain strings.
func c02IsHTMLEscaper(name string) bool {
	return name == sanitizeHTMLFuncName || name == sanitizeRCDATAFuncName
}

type c02URLCtx struct{ elem, attr, rel string }

var c02URLContexts = []c02URLCtx{{"a", "href", ""}, {"form", "action", ""}, {"img", "src", ""}, {"button", "formaction", ""}, {"link", "href", " icon "}, {"area", "href", ""}}

// one action at the start of a URL attribute
func vHarness_C02_url1() {
	cc := c02URLContexts[vParam("ctx")]
	d := vNondetString("d", vParam("n"))
	vASCII(d)
	chain, err := sanitizerForContext(vAttrContext(cc.elem, cc.attr, "", delimDoubleQuote, cc.rel))
	vAssert(err == nil, "the URL context is listed")
	if err != nil {
		return
	}
	// the chain ends with the HTML escaper, whose output the browser decodes back to its
	// input (C10): the decoded attribute value is what the chain yields before that last step
	vAssert(len(chain) >= 2 && c02IsHTMLEscaper(chain[len(chain)-1]), "a URL chain ends with the HTML escaper")
	out, derr := vApplyChain(chain[:len(chain)-1], d)
	if derr != nil {
		return
	}
	vReach("emitted")
	vAssert(!refSchemeIsJavascript(out), "a URL attribute filled by one action has the javascript scheme")
	full, _ := vApplyChain(chain, d)
	vAssert(refAttrSafe(full), "the emitted URL is HTML-escaped")
}

// two adjacent actions in one URL attribute: <a href="{{.A}}{{.B}}">
func vHarness_C02_url2() {
	cc := c02URLContexts[vParam("ctx")]
	d1 := vNondetString("d1", vParam("n1"))
	d2 := vNondetString("d2", vParam("n2"))
	vASCII(d1)
	vASCII(d2)
	if vParam("schemechars") == 1 {
		// restrict both pieces to bytes that can occur in a scheme (and ':'): no byte is
		// percent-encoded, so the pieces have a single shape
		for i := 0; i < len(d1); i++ {
			vAssume(refAlpha(d1[i]) || refDigit(d1[i]) || d1[i] == '+' || d1[i] == '-' || d1[i] == '.' || d1[i] == ':')
		}
		for i := 0; i < len(d2); i++ {
			vAssume(refAlpha(d2[i]) || refDigit(d2[i]) || d2[i] == '+' || d2[i] == '-' || d2[i] == '.' || d2[i] == ':')
		}
	}
	c := vAttrContext(cc.elem, cc.attr, "", delimDoubleQuote, cc.rel)
	chain, err := sanitizerForContext(c) // the context is unchanged by an action, so both get this chain
	if err != nil {
		return
	}
	if len(chain) < 2 || !c02IsHTMLEscaper(chain[len(chain)-1]) {
		return
	}
	o1, e1 := vApplyChain(chain[:len(chain)-1], d1)
	o2, e2 := vApplyChain(chain[:len(chain)-1], d2)
	if e1 != nil || e2 != nil {
		return
	}
	vReach("emitted")
	alone := refSchemeIsJavascript(o1)
	vAssertKnown(!refSchemeIsJavascript(o1+o2), "a URL attribute filled by two adjacent actions has the javascript scheme", "C02-split-url", !alone)
}

func refChainsEqual(a, b []string) bool {
	if len(a) != len(b) {
		return false
	}
	for i := range a {
		if a[i] != b[i] {
			return false
		}
	}
	return true
}

// mangle must not give one name to two contexts that sanitize differently
func vHarness_C02_mangle() {
	cc := c02URLContexts[vParam("ctx")]
	v1 := vNondetString("v1", vParam("n1"))
	v2 := vNondetString("v2", vParam("n2"))
	vASCII(v1)
	vASCII(v2)
	rel2 := cc.rel
	if vParam("relvar") == 1 && cc.elem == "link" {
		rel2 = " stylesheet "
	}
	c1 := vAttrContext(cc.elem, cc.attr, v1, delimDoubleQuote, cc.rel)
	c2 := vAttrContext(cc.elem, cc.attr, v2, delimDoubleQuote, rel2)
	if mangle(c1, "t") != mangle(c2, "t") {
		return
	}
	vReach("same-name")
	ch1, err1 := sanitizerForContext(c1)
	ch2, err2 := sanitizerForContext(c2)
	same := (err1 != nil && err2 != nil) || (err1 == nil && err2 == nil && refChainsEqual(ch1, ch2))
	vAssertKnown(same, "two contexts with the same mangled template name get different sanitizer chains", "C02-mangle", v1 != v2 || rel2 != cc.rel)
}

func vProbe_C02_url2(a []string) string {
	chain, err := sanitizerForContext(vAttrContext("a", "href", "", delimDoubleQuote, ""))
	if err != nil {
		return "ctxerr"
	}
	o1, e1 := vApplyChain(chain[:len(chain)-1], a[0])
	o2, e2 := vApplyChain(chain[:len(chain)-1], a[1])
	if e1 != nil || e2 != nil {
		return "err"
	}
	return o1 + o2
}

func vProbe_C02_mangle(a []string) string {
	return mangle(vAttrContext(a[0], a[1], a[2], delimDoubleQuote, ""), "t")
}
