package safehtml

// Reference: CSS Syntax Level 3 tokenizer (DESIGN.md Appendix A.4) as a scalar state
// machine over bytes, with the observables the C15 / C16 obligations need. A byte
// >= 0x80 is a non-ASCII code point (a name character). The machine is written with
// scalar state only so that the symbolic engine can merge it at every byte.

const (
	cssNormal     uint8 = iota // between tokens, or inside an ident / number / delim run
	cssSlash                   // seen '/', could start a comment
	cssComment                 // inside /* ... */
	cssCommentStar             // inside a comment, seen '*'
	cssDQ                      // inside "..."
	cssDQEsc                   // inside "...", seen '\'
	cssSQ                      // inside '...'
	cssSQEsc                   // inside '...', seen '\'
	cssURLStart                // after url( skipping white space
	cssURL                     // inside an unquoted url
	cssURLEsc                  // inside an unquoted url, seen '\'
	cssURLEnd                  // unquoted url, white space seen: only ')' may follow
	cssBadURL                  // bad url: consuming remnants up to ')'
	cssBadURLEsc               // bad url, seen '\'
	cssEsc                     // outside strings, seen '\'
)

const (
	cssIdNone  uint8 = iota // not in a name
	cssIdU                  // name so far: u
	cssIdUR                 // ur
	cssIdURL                // url
	cssIdOther              // some other name, a dimension unit, a hash or an at-keyword name
	cssIdNum                // inside a number
)

type cssObs struct {
	state, id       uint8
	depth           uint8  // nesting depth of ( [ {
	stack           uint32 // two bits per level: 1 '(' 2 '[' 3 '{'
	semis           uint8  // ';' tokens at depth 0
	lastSemi        int32  // index of the last one (-1: none)
	braces          bool   // '{' or '}' token
	at              bool   // '@' outside strings
	comment         bool   // a comment was opened
	lt              bool   // '<' anywhere
	badString       bool   // newline inside a string
	badURL          bool
	unbalanced      bool // a closer without matching opener
	backslash       bool // '\' outside strings and urls
	quotedURLs      uint8
	unquotedURLs    uint8
	colonsTop       uint8 // ':' at depth 0
	firstColon      int32
	esc             uint8 // inside a string: 1..6 hex digits of an escape seen, 7 = swallowed CR
	nonPrintableURL bool
}

func cssNewline(b byte) bool { return b == '\n' || b == '\r' || b == '\f' }
func cssWS(b byte) bool      { return b == ' ' || b == '\t' || cssNewline(b) }
func cssNameStart(b byte) bool {
	return refAlpha(b) || b == '_' || b >= 0x80
}
func cssNameByte(b byte) bool { return cssNameStart(b) || refDigit(b) || b == '-' }
func cssNonPrintable(b byte) bool {
	return b <= 8 || b == 0x0B || (0x0E <= b && b <= 0x1F) || b == 0x7F
}

func (o *cssObs) push(kind uint32) {
	if o.depth < 15 {
		o.stack = o.stack<<2 | kind
		o.depth++
	} else {
		o.unbalanced = true // deeper than the model tracks: treated as a failure
	}
}

func (o *cssObs) pop(kind uint32) {
	if o.depth > 0 && o.stack&3 == kind {
		o.stack >>= 2
		o.depth--
	} else {
		o.unbalanced = true
	}
}

// refCSSScan tokenizes s from the initial state.
func refCSSScan(s string) cssObs {
	o := cssObs{lastSemi: -1, firstColon: -1}
	for i := 0; i < len(s); i++ {
		b := s[i]
		if b == '<' {
			o.lt = true
		}
		switch o.state {
		case cssComment:
			if b == '*' {
				o.state = cssCommentStar
			}
			continue
		case cssCommentStar:
			if b == '/' {
				o.state = cssNormal
			} else if b != '*' {
				o.state = cssComment
			}
			continue
		case cssDQ, cssSQ:
			q := byte('"')
			if o.state == cssSQ {
				q = '\''
			}
			esc := o.esc
			o.esc = 0
			if esc == 7 && b == '\n' {
				continue // LF of a swallowed CR LF
			}
			if esc >= 1 && esc <= 6 {
				// inside a hex escape: more digits, or one optional white space that ends it
				if refHexDigit(b) && esc < 6 {
					o.esc = esc + 1
					continue
				}
				if cssWS(b) {
					if b == '\r' {
						o.esc = 7
					}
					continue
				}
			}
			if b == q {
				o.state = cssNormal
			} else if b == '\\' {
				o.state++ // the Esc variant
			} else if cssNewline(b) {
				o.badString = true
				o.state = cssNormal // the newline is reconsumed as white space
			}
			continue
		case cssDQEsc, cssSQEsc:
			// the byte after '\': a newline is a line continuation, a hex digit starts a
			// hex escape, anything else is taken literally
			o.state--
			if refHexDigit(b) {
				o.esc = 1
			} else if b == '\r' {
				o.esc = 7
			}
			continue
		case cssURLStart:
			if cssWS(b) {
				continue
			}
			if b == '"' || b == '\'' {
				// function token followed by a string: url("...")
				o.quotedURLs++
				o.push(1)
				if b == '"' {
					o.state = cssDQ
				} else {
					o.state = cssSQ
				}
				continue
			}
			o.unquotedURLs++
			o.state = cssURL
			// fall into the unquoted url handling for this byte
			fallthrough
		case cssURL:
			switch {
			case b == ')':
				o.state = cssNormal
			case cssWS(b):
				o.state = cssURLEnd
			case b == '"' || b == '\'' || b == '(' || cssNonPrintable(b):
				o.badURL = true
				o.state = cssBadURL
			case b == '\\':
				o.state = cssURLEsc
			}
			continue
		case cssURLEsc:
			if cssNewline(b) {
				o.badURL = true
				o.state = cssBadURL
			} else {
				o.state = cssURL
			}
			continue
		case cssURLEnd:
			if b == ')' {
				o.state = cssNormal
			} else if !cssWS(b) {
				o.badURL = true
				o.state = cssBadURL
				if b == '\\' {
					o.state = cssBadURLEsc
				}
			}
			continue
		case cssBadURL:
			if b == ')' {
				o.state = cssNormal
			} else if b == '\\' {
				o.state = cssBadURLEsc
			}
			continue
		case cssBadURLEsc:
			o.state = cssBadURL
			continue
		case cssEsc:
			// escape outside strings: the byte is part of a name
			o.state = cssNormal
			o.id = cssIdOther
			continue
		case cssSlash:
			if b == '*' {
				o.comment = true
				o.state = cssComment
				o.id = cssIdNone
				continue
			}
			o.state = cssNormal
			// '/' was a delimiter; reprocess b as a normal byte below
		}
		// ---- normal state ----
		wasID := o.id
		switch {
		case cssNameByte(b) && !(refDigit(b) && (wasID == cssIdNone || wasID == cssIdNum)) && !(b == '-' && wasID == cssIdNum):
			// a name byte continuing or starting a name (a digit or '-' inside a number stays a number)
			lb := refLowerByte(b)
			switch {
			case wasID == cssIdNone && lb == 'u':
				o.id = cssIdU
			case wasID == cssIdU && lb == 'r':
				o.id = cssIdUR
			case wasID == cssIdUR && lb == 'l':
				o.id = cssIdURL
			default:
				o.id = cssIdOther // includes a unit after a number (dimension) and '-' starts
			}
		case refDigit(b):
			o.id = cssIdNum
		case (b == '.' || b == '+' || b == '-') && (wasID == cssIdNone || wasID == cssIdNum):
			// sign or decimal point: part of / start of a number, or a delimiter; never a name
			if wasID == cssIdNum {
				o.id = cssIdNum
			} else {
				o.id = cssIdNone
			}
		default:
			o.id = cssIdNone
			switch b {
			case '(':
				if wasID == cssIdURL {
					o.state = cssURLStart
				} else {
					o.push(1)
				}
			case '[':
				o.push(2)
			case '{':
				o.braces = true
				o.push(3)
			case ')':
				o.pop(1)
			case ']':
				o.pop(2)
			case '}':
				o.braces = true
				o.pop(3)
			case '"':
				o.state = cssDQ
			case '\'':
				o.state = cssSQ
			case '/':
				o.state = cssSlash
			case '\\':
				o.backslash = true
				o.state = cssEsc
			case '@':
				o.at = true
			case '#':
				o.id = cssIdOther // a following name is a hash, never url
			case ';':
				if o.depth == 0 {
					o.semis++
					o.lastSemi = int32(i)
				}
			case ':':
				if o.depth == 0 {
					o.colonsTop++
					if o.firstColon < 0 {
						o.firstColon = int32(i)
					}
				}
			}
		}
	}
	return o
}

// refCSSClean: the scan ended between tokens with everything closed and nothing ill-formed.
func (o cssObs) clean() bool {
	endOK := o.state == cssNormal || o.state == cssSlash
	return endOK && o.depth == 0 && !o.unbalanced && !o.badString && !o.badURL && !o.comment && !o.lt
}
