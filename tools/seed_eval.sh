#!/bin/bash
# usage: tools/seed_eval.sh <prop> <N> [tier]   confirms a seeded change in its scratch worktree, stores it under
# /verif/seeded/<prop>-<N>/ and runs the check of <prop> against /repo with the patch applied (then restores /repo).
prop=$1; n=$2; tier=${3:-quick}
wt=/tmp/wt-$prop; src=$wt/seed_out/$n
export GOFLAGS=-mod=mod GOPROXY=off GOSUMDB=off GOTOOLCHAIN=local
[ -f $src/patch.diff ] || { echo "no patch at $src"; exit 2; }
dir=$(cat $src/demo_dir.txt | tr -d '\n ')
cd $wt && git checkout -q -- . && rm -f */seed_demo_*_test.go seed_demo_*_test.go
pkgs=$(go list ./... | grep -v seed_out)
# 1. with the change: builds, existing tests pass, demo fails
git apply $src/patch.diff || { echo "patch does not apply"; exit 2; }
build=ok; go build ./... >/dev/null 2>&1 || build=FAIL
suite=ok; go test -vet=off -count=1 $pkgs >/tmp/seed_suite.log 2>&1 || suite=FAIL
cp $src/demo_test.go $dir/seed_demo_${n}_test.go
demo_with=pass; go test -vet=off -count=1 -run "TestSeedDemo${n}\$" ./$dir >/tmp/seed_demo_with.log 2>&1 || demo_with=fail
# 2. without the change: demo passes
git checkout -q -- . 
demo_without=pass; go test -vet=off -count=1 -run "TestSeedDemo${n}\$" ./$dir >/tmp/seed_demo_without.log 2>&1 || demo_without=fail
rm -f $dir/seed_demo_${n}_test.go
echo "confirm $prop-$n: build=$build suite=$suite demo_with_change=$demo_with demo_without_change=$demo_without"
# 3. our check against /repo with the patch
cd /verif
git -C /repo apply $src/patch.diff || { echo "patch does not apply to /repo"; exit 2; }
out=$(timeout 3600 ./checks/run.sh $prop $tier 2>&1); code=$?
git -C /repo checkout -- .
echo "check $prop $tier exit=$code"
echo "$out" | grep -E "^(VIOLATION|INCONCLUSIVE|  harness)" | head -4 | cut -c1-300
mkdir -p seeded/$prop-$n
cp $src/patch.diff $src/demo_test.go $src/demo_dir.txt $src/README.md seeded/$prop-$n/
first=$(echo "$out" | grep -E "^(VIOLATION|INCONCLUSIVE)" | head -1 | cut -c1-200)
detail=$(echo "$out" | grep -E "^  harness" | head -1 | cut -c1-400)
python3 - "$prop" "$n" "$tier" "$build" "$suite" "$demo_with" "$demo_without" "$code" "$first" "$detail" <<'PY'
import json,sys
prop,n,tier,build,suite,dw,dwo,code,first,detail=sys.argv[1:]
meta={"property":prop,"seed":n,"origin":"independent sub-agent given only the property text and a scratch worktree",
 "confirmed":{"builds_with_change":build,"existing_suite_with_change":suite,"demo_with_change":dw,"demo_without_change":dwo,
   "how":"tools/seed_eval.sh: git apply in the scratch worktree, go build ./..., go test (library packages), demo test with and without the patch"},
 "check":{"tier":tier,"exit":int(code),"first_line":first,"detail":detail,"detected":int(code)==1}}
json.dump(meta,open("/verif/seeded/%s-%s/meta.json"%(prop,n),"w"),indent=1)
PY
