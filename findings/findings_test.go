// End-to-end demonstrations, through the public API only, of the findings recorded in
// /verif/known_findings.json. Each test PASSES when the finding reproduces (the defect is
// present) and is skipped when it no longer does. Run: tools/run_findings.sh
package findings

import (
	"bytes"
	"strings"
	"testing"

	"github.com/google/safehtml"
	"github.com/google/safehtml/template"
	tuc "github.com/google/safehtml/template/uncheckedconversions"
	"github.com/google/safehtml/uncheckedconversions"
)

func render(t *testing.T, src string, data interface{}) (string, error) {
	tmpl, err := template.New("t").ParseFromTrustedTemplate(tuc.TrustedTemplateFromStringKnownToSatisfyTypeContract(src))
	if err != nil {
		return "", err
	}
	var b bytes.Buffer
	err = tmpl.Execute(&b, data)
	return b.String(), err
}

func expect(t *testing.T, id, out string, err error, want string) {
	if err != nil {
		t.Skipf("%s: template rejected now (%v)", id, err)
	}
	if !strings.Contains(out, want) {
		t.Skipf("%s: no longer reproduces: %q", id, out)
	}
	t.Logf("%s reproduces: %q", id, out)
}

func TestC02SplitURL(t *testing.T) {
	out, err := render(t, `<a href="{{.A}}{{.B}}">x</a>`, map[string]string{"A": "java", "B": "script:alert(1)"})
	expect(t, "C02-split-url", out, err, `href="javascript:alert`)
}

func TestC02RelDowngrade(t *testing.T) {
	out, err := render(t, `<link rel="alternate stylesheet" href="{{.U}}">`, map[string]string{"U": "//evil.example/x.css"})
	expect(t, "C02-rel-downgrade", out, err, `href="//evil.example/x.css"`)
}

type recNode struct {
	T *recNode
	X string
}

func TestC01FixedPointStartContext(t *testing.T) {
	out, err := render(t, `<a href="{{template "y" .}}{{.X}}<<{{define "y"}}>{{if .T}}{{template "y" .T}}{{end}}"{{end}}`, &recNode{X: " onmouseover=alert(1) "})
	expect(t, "C01-fixedpoint-start-context", out, err, `<a href=">" onmouseover=alert(1) `)
}

func TestC01StaleOutputContext(t *testing.T) {
	out, err := render(t, `{{define "h"}}<a href="{{end}}{{template "h" .}}x">a</a>{{template "h" .}}{{.}}">b</a>`, "javascript:alert(1)")
	expect(t, "C01-stale-output-context", out, err, `href="javascript:alert(1)"`)
}

func TestC08CallOfUnusableTemplate(t *testing.T) {
	tmpl, err := template.New("t").ParseFromTrustedTemplate(tuc.TrustedTemplateFromStringKnownToSatisfyTypeContract(
		`{{define "bad"}}<a href="{{.}}{{end}}{{define "c"}}x{{template "bad" .}}y">{{end}}`))
	if err != nil {
		t.Skip(err)
	}
	var b bytes.Buffer
	if err := tmpl.ExecuteTemplate(&b, "bad", "d"); err == nil {
		t.Skip("bad is accepted now")
	}
	panicked := false
	func() {
		defer func() { panicked = recover() != nil }()
		err = tmpl.ExecuteTemplate(&b, "c", "d")
	}()
	if !panicked {
		t.Skipf("C08-call-of-unusable-template: no longer reproduces (err=%v)", err)
	}
	t.Logf("C08-call-of-unusable-template reproduces: ExecuteTemplate panicked")
}

func TestC01EndTagCR(t *testing.T) {
	// a browser normalises CR to LF, so "</script\r>" ends the script element; the escaper
	// stayed in the script body and emitted the (trusted) script where the browser parses HTML
	sc := safehtml.ScriptFromConstant("if(a<b&&c>d){}")
	out, err := render(t, "<script>x</script\r>{{.}}</script>", sc)
	expect(t, "C01-endtag-cr", out, err, "</script\r>if(a<b&&c>d){}</script>")
}

func TestC06DerivedFromRewrittenTree(t *testing.T) {
	tmpl, err := template.New("t").ParseFromTrustedTemplate(tuc.TrustedTemplateFromStringKnownToSatisfyTypeContract(
		`{{define "h"}}{{.}}{{end}}{{define "a"}}<p>{{template "h" .}}{{end}}{{define "b"}}<p title="{{template "h" .}}">{{end}}`))
	if err != nil {
		t.Skip(err)
	}
	var b bytes.Buffer
	if err := tmpl.ExecuteTemplate(&b, "a", "x&y"); err != nil {
		t.Skip(err)
	}
	b.Reset()
	err = tmpl.ExecuteTemplate(&b, "b", "x&y")
	expect(t, "C06-derived-from-rewritten-tree", b.String(), err, `title="x&amp;amp;y"`)
}

func TestC04LinkRelGluedToken(t *testing.T) {
	out, err := render(t, `<link rel="{{if .C}}x{{end}}icon stylesheet" href="{{.U}}">`, map[string]interface{}{"C": true, "U": "//evil.example/x.css"})
	expect(t, "C04-linkrel-glued-token", out, err, `rel="xicon stylesheet" href="//evil.example/x.css"`)
}

func TestC03HTMLInAttr(t *testing.T) {
	h := uncheckedconversions.HTMLFromStringKnownToSatisfyTypeContract(`a" onmouseover="alert(1)`)
	out, err := render(t, `<div title="{{.H}}">x</div>`, map[string]interface{}{"H": h})
	expect(t, "C03-html-in-attr", out, err, `title="a" onmouseover="alert(1)"`)
}

func TestC13DotDot(t *testing.T) {
	u, err := safehtml.TrustedResourceURLFormatFromConstant("/p/%{a}%{b}/x.js", map[string]string{"a": ".", "b": "."})
	expect(t, "C13-dotdot-assembled", u.String(), err, "/p/../x.js")
}

func TestC13Fold(t *testing.T) {
	u, err := safehtml.TrustedResourceURLFormatFromConstant("//ſ./x.js", nil)
	expect(t, "C13-fold-nonascii", u.String(), err, "//ſ./x.js")
}

func TestC14CharRefQuery(t *testing.T) {
	out, err := render(t, `<a href="/x&quest;q={{.Q}}">x</a>`, map[string]string{"Q": "1&admin=1#f"})
	expect(t, "C14-raw-prefix-decision", out, err, `q=1&amp;admin=1#f`)
}

func TestC14DotDotTail(t *testing.T) {
	out, err := render(t, `<script src="/js/.{{.X}}"></script>`, map[string]string{"X": "."})
	expect(t, "C14-dotdot-prefix-tail", out, err, `src="/js/.."`)
}

func TestC15Comma(t *testing.T) {
	s := safehtml.StyleFromProperties(safehtml.StyleProperties{Color: "a,b"})
	expect(t, "C15-comma", s.String(), nil, "color:a,b;")
}

func TestC16UnquotedURL(t *testing.T) {
	ss, err := safehtml.CSSRule(`url(x"){}input[value^=a]{background:url(//evil/a)}z{"y)`, safehtml.StyleFromConstant("color:red;"))
	expect(t, "C16-unquoted-url", ss.String(), err, `{background:url(//evil/a)}`)
}

func TestC01UnknownRawText(t *testing.T) {
	out, err := render(t, `<xmp><!--</xmp>--><b>{{.}}</b>`, "x")
	expect(t, "C01-unknown-rawtext", out, err, `<xmp><b>x</b>`)
}

func TestC01ScriptDoubleEscape(t *testing.T) {
	out, err := render(t, `<script><!--<script></script>{{.}}//--></script>`, "alert(1)")
	expect(t, "C01-script-escape-states", out, err, `</script>alert(1)//--></script>`)
}

func TestC01JoinElementNames(t *testing.T) {
	out, err := render(t, `{{if .C}}<script>{{else}}<style>{{end}}</style>{{.X}}`, map[string]interface{}{"C": true, "X": "alert(1)"})
	expect(t, "C01-join-element-names", out, err, `<script></style>alert(1)`)
}

func TestC01TagNameSplit(t *testing.T) {
	out, err := render(t, `<div{{if .C}}{{end}}title ="{{.D}}">`, map[string]interface{}{"C": true, "D": "x onmouseover=alert(1) y"})
	expect(t, "C01-tagname-charset", out, err, `<divtitle ="x onmouseover=alert(1) y">`)
}

func TestC01CommentForms(t *testing.T) {
	out, err := render(t, `<!--><b>{{.}}</b>-->z`, "x")
	expect(t, "C01-comment-forms", out, err, `z`)
	if strings.Contains(out, "<b>") {
		t.Skipf("C01-comment-forms: static markup after <!--> is kept now: %q", out)
	}
}
