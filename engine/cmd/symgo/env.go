package main

import (
	"bytes"
	"encoding/json"
	"fmt"
	"os"
	osexec "os/exec"
	"path/filepath"
	"regexp"
	"sort"
	"strings"

	"symgo/exec"
)

// harness package dir (under /verif/harness) -> directory relative to the repo root and package name
var pkgDirs = map[string][2]string{
	"safehtml":     {".", "safehtml"},
	"safehtmlutil": {"internal/safehtmlutil", "safehtmlutil"},
	"template":     {"template", "template"},
}

func pkgPath(dir string) string {
	rel := pkgDirs[dir][0]
	if rel == "." {
		return exec.RepoModule
	}
	return exec.RepoModule + "/" + rel
}

type env struct {
	repo, verif string
	scratch     string
	overlay     map[string][]byte // virtual path -> content
	realFiles   map[string]string // virtual path -> real file (for go test -overlay)
}

func newEnv(repo, verif string) (*env, error) {
	scratch, err := os.MkdirTemp("", "symgo-")
	if err != nil {
		return nil, err
	}
	e := &env{repo: repo, verif: verif, scratch: scratch, overlay: map[string][]byte{}, realFiles: map[string]string{}}
	if err := e.buildOverlay(); err != nil {
		e.cleanup()
		return nil, err
	}
	return e, nil
}

func (e *env) cleanup() {
	if os.Getenv("SYMGO_KEEP") != "" {
		fmt.Fprintln(os.Stderr, "scratch kept:", e.scratch)
		return
	}
	os.RemoveAll(e.scratch)
}

var fnRe = regexp.MustCompile(`(?m)^func (vHarness_\w+|vProbe_\w+)\(`)

func (e *env) buildOverlay() error {
	rt, err := os.ReadFile(filepath.Join(e.verif, "harness/rt/zz_verif_rt.go.tmpl"))
	if err != nil {
		return err
	}
	rtTest, err := os.ReadFile(filepath.Join(e.verif, "harness/rt/zz_verif_rt_test.go.tmpl"))
	if err != nil {
		return err
	}
	for dir, info := range pkgDirs {
		rel, name := info[0], info[1]
		files, _ := filepath.Glob(filepath.Join(e.verif, "harness", dir, "*.go"))
		sort.Strings(files)
		var harnesses, probes []string
		add := func(base string, content []byte) error {
			virt := filepath.Join(e.repo, rel, base)
			if _, err := os.Stat(virt); err == nil {
				return fmt.Errorf("overlay file %s already exists in the repository", virt)
			}
			e.overlay[virt] = content
			real := filepath.Join(e.scratch, dir+"__"+base)
			if err := os.WriteFile(real, content, 0o644); err != nil {
				return err
			}
			e.realFiles[virt] = real
			return nil
		}
		for _, f := range files {
			data, err := os.ReadFile(f)
			if err != nil {
				return err
			}
			for _, m := range fnRe.FindAllSubmatch(data, -1) {
				n := string(m[1])
				if strings.HasPrefix(n, "vHarness_") {
					harnesses = append(harnesses, n)
				} else {
					probes = append(probes, n)
				}
			}
			if err := add(filepath.Base(f), data); err != nil {
				return err
			}
		}
		shared, _ := filepath.Glob(filepath.Join(e.verif, "harness/shared/*.go.tmpl"))
		sort.Strings(shared)
		for _, f := range shared {
			data, err := os.ReadFile(f)
			if err != nil {
				return err
			}
			if err := add(strings.TrimSuffix(filepath.Base(f), ".tmpl"), bytes.ReplaceAll(data, []byte("PKGNAME"), []byte(name))); err != nil {
				return err
			}
		}
		if err := add("zz_verif_rt.go", bytes.ReplaceAll(rt, []byte("PKGNAME"), []byte(name))); err != nil {
			return err
		}
		if err := add("zz_verif_rt_test.go", bytes.ReplaceAll(rtTest, []byte("PKGNAME"), []byte(name))); err != nil {
			return err
		}
		var reg bytes.Buffer
		fmt.Fprintf(&reg, "package %s\n\nvar vHarnesses = map[string]func(){\n", name)
		for _, h := range harnesses {
			fmt.Fprintf(&reg, "\t%q: %s,\n", h, h)
		}
		fmt.Fprintf(&reg, "}\n\nvar vProbes = map[string]func([]string) string{\n")
		for _, p := range probes {
			fmt.Fprintf(&reg, "\t%q: %s,\n", p, p)
		}
		fmt.Fprintf(&reg, "}\n")
		if err := add("zz_verif_reg.go", reg.Bytes()); err != nil {
			return err
		}
	}
	return nil
}

func (e *env) load() (*exec.World, error) {
	// the _test.go overlay file must not be part of the non-test package load
	ov := map[string][]byte{}
	for k, v := range e.overlay {
		if strings.HasSuffix(k, "_test.go") {
			continue
		}
		ov[k] = v
	}
	return exec.Load(e.repo, ov, []string{".", "./internal/safehtmlutil", "./template"})
}

func (e *env) overlayJSON() (string, error) {
	type ovl struct {
		Replace map[string]string
	}
	o := ovl{Replace: e.realFiles}
	data, _ := json.Marshal(o)
	p := filepath.Join(e.scratch, "overlay.json")
	return p, os.WriteFile(p, data, 0o644)
}

// goTest runs one of the native test entry points of the overlaid package.
func (e *env) goTest(pkgDir string, run string, extraEnv []string) (string, error) {
	ov, err := e.overlayJSON()
	if err != nil {
		return "", err
	}
	rel := pkgDirs[pkgDir][0]
	cmd := osexec.Command("go", "test", "-vet=off", "-count=1", "-timeout", "20m", "-overlay", ov, "-run", "^"+run+"$", "./"+rel)
	cmd.Dir = e.repo
	cmd.Env = append(os.Environ(), "GOFLAGS=-mod=mod", "GOPROXY=off", "GOSUMDB=off", "GOTOOLCHAIN=local")
	cmd.Env = append(cmd.Env, extraEnv...)
	out, err := cmd.CombinedOutput()
	return string(out), err
}
