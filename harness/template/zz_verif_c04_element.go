package template

// C04, which element an action's content position belongs to: after a static text the
// escaper's idea of the enclosing element (context.element, used to look up the element
// content policy) must be the element whose start tag the HTML tokenizer saw last - or
// nothing, if that element is void, or if the last tag was an end tag.

func c04Pack(name string) (lo, hi uint32, n uint8) {
	for i := 0; i < len(name); i++ {
		c := tokCode(name[i])
		if i < 6 {
			lo = lo<<5 | c
		} else if i < 12 {
			hi = hi<<5 | c
		}
		n++
	}
	return
}

var c04VoidNames = []string{"area", "base", "br", "col", "embed", "hr", "img", "input", "keygen", "link", "meta", "param", "source", "track", "wbr"}

func vHarness_C04_element() {
	prefixes := []string{"", "<", "<ob", "<br", "<a b"}
	s := vNondetString("s", vParam("n"))
	vASCII(s)
	text := prefixes[vParam("pre")] + s
	c, out := c01Escape(context{}, text)
	if c.state != stateText {
		vReach("other")
		return
	}
	var t tok
	t.run(out)
	if t.st != kData || t.odd || t.oddSlash || t.oddCmt || c01UnknownRaw(&t) {
		// outside this lemma: the recorded tokenizer / escaper disagreements of C01
		vReach("odd")
		return
	}
	vReach("text")
	lo, hi, n := c04Pack(c.element.name)
	isStart := t.nameLen > 0 && !t.isEnd
	if c.element.name != "" {
		vReach("element")
		vAssert(isStart && lo == t.nameLo && hi == t.nameHi && n == t.nameLen, "the escaper places the position in the content of an element other than the one whose start tag precedes it")
		return
	}
	if isStart {
		void := false
		for _, v := range c04VoidNames {
			vlo, vhi := tokPack(v)
			if t.nameLo == vlo && t.nameHi == vhi && int(t.nameLen) == len(v) {
				void = true
			}
		}
		vAssert(void, "the escaper forgot the enclosing element: the position follows the start tag of a non-void element but is treated as top-level text")
	}
}
