package template

// C04: sanitization policy is default-deny and never weaker than the reviewed policy.

func c04ClassOf(sc sanitizationContext) uint8 {
	switch sc {
	case sanitizationContextAsyncEnum:
		return refClassAsyncEnum
	case sanitizationContextDirEnum:
		return refClassDirEnum
	case sanitizationContextHTML:
		return refClassHTML
	case sanitizationContextHTMLValOnly:
		return refClassHTMLValOnly
	case sanitizationContextIdentifier:
		return refClassIdentifier
	case sanitizationContextLoadingEnum:
		return refClassLoadingEnum
	case sanitizationContextNone:
		return refClassNoSan
	case sanitizationContextRCDATA:
		return refClassRCDATA
	case sanitizationContextScript:
		return refClassScript
	case sanitizationContextStyle:
		return refClassStyle
	case sanitizationContextStyleSheet:
		return refClassStyleSheet
	case sanitizationContextTargetEnum:
		return refClassTargetEnum
	case sanitizationContextTrustedResourceURL:
		return refClassTrustedResourceURL
	case sanitizationContextTrustedResourceURLOrURL:
		return refClassTrustedResourceURLOrURL
	case sanitizationContextURL:
		return refClassURL
	case sanitizationContextURLSet:
		return refClassURLSet
	}
	return refClassreject
}

// refAtLeast: got demands at least the trust of want (reject above everything;
// TrustedResourceURL > TrustedResourceURLOrURL > URL > None; all else incomparable, above None).
func refAtLeast(got, want uint8) bool {
	if got == want || got == refClassreject || want == refClassNoSan {
		return true
	}
	if want == refClassURL {
		return got == refClassTrustedResourceURLOrURL || got == refClassTrustedResourceURL
	}
	if want == refClassTrustedResourceURLOrURL {
		return got == refClassTrustedResourceURL
	}
	return false
}

func refDataAttr(a string) bool {
	if len(a) < 6 || a[:5] != "data-" {
		return false
	}
	ok := ('a' <= a[5] && a[5] <= 'z') || a[5] == '_'
	for i := 6; i < len(a); i++ {
		b := a[i]
		ok = ok && (('a' <= b && b <= 'z') || ('0' <= b && b <= '9') || b == '-' || b == '_')
	}
	return ok
}

var c04Rels = []string{"", " stylesheet ", " icon ", " alternate stylesheet ", " nofollow noopener ", " preload stylesheet icon ", " modulepreload ", " x-prefetch ", " apple-touch-icon ", " iconx ", " xicon "}

func refRelHasURLVal(rel string) bool {
	// rel is concrete and already normalised: tokens separated by single spaces
	tok := ""
	hit := false
	for i := 0; i <= len(rel); i++ {
		if i == len(rel) || rel[i] == ' ' {
			for _, v := range refURLLinkRelVals {
				if tok == v && tok != "" {
					hit = true
				}
			}
			tok = ""
			continue
		}
		tok += rel[i : i+1]
	}
	return hit
}

func refAttrClass(e, a string, rel string) uint8 {
	if e == "link" && a == "href" && refRelHasURLVal(rel) {
		return refClassTrustedResourceURLOrURL
	}
	if refDataAttr(a) {
		return refClassNoSan
	}
	if c := refElementSpecificClass(a, e); c != refClassreject {
		return c
	}
	if g := refGlobalAttrClass(a); g != refClassreject && (refElementContentClass(e) != refClassreject || refAllowedVoid(e)) {
		return g
	}
	return refClassreject
}

func vHarness_C04_attr() {
	le, la := vParam("le"), vParam("la")
	rel := c04Rels[vParam("rel")]
	e := vNondetString("e", le)
	a := vNondetString("a", la)
	sc, err := sanitizationContextForAttrVal(e, a, rel)
	if err != nil {
		vReach("rejected")
		return
	}
	vReach("accepted")
	want := refAttrClass(e, a, rel)
	vAssert(want != refClassreject, "an (element, attribute) pair the reviewed policy does not list is accepted (default deny broken)")
	vAssert(refAtLeast(c04ClassOf(sc), want), "an attribute gets a weaker sanitization class than the reviewed policy demands")
}

func vHarness_C04_content() {
	le := vParam("le")
	e := vNondetString("e", le)
	sc, err := sanitizationContextForElementContent(e)
	if err != nil {
		vReach("rejected")
		return
	}
	vReach("accepted")
	want := refElementContentClass(e)
	vAssert(want != refClassreject, "element content the reviewed policy does not list is accepted (default deny broken)")
	vAssert(c04ClassOf(sc) == want, "element content gets a different sanitization class than reviewed")
}

// positions: an action is rejected in tag / attribute-name positions and in unquoted values
func vHarness_C04_positions() {
	st := state(vNondetByte("state"))
	dl := delim(vNondetByte("delim"))
	vAssume(st <= stateError && dl <= delimSpaceOrTagEnd)
	c := context{state: st, delim: dl, element: element{name: "div"}, attr: attr{name: "title"}}
	_, err := sanitizerForContext(c)
	if st == stateTag || st == stateAttrName || st == stateAfterName {
		vReach("name-position")
		vAssert(err != nil, "an action in a tag or attribute-name position is accepted")
	}
	if st == stateAttr && dl != delimDoubleQuote && dl != delimSingleQuote {
		vReach("unquoted")
		vAssert(err != nil, "an action in an unquoted attribute value is accepted")
	}
	if err == nil {
		vReach("accepted")
	}
}

type c04Chain struct {
	elem, attr string
	class      uint8
}

var c04TypedOnly = []c04Chain{
	{"script", "", refClassScript}, {"style", "", refClassStyleSheet}, {"div", "style", refClassStyle}, {"div", "id", refClassIdentifier},
	{"iframe", "srcdoc", refClassHTMLValOnly}, {"script", "src", refClassTrustedResourceURL}, {"div", "aria-owns", refClassIdentifier}, {"link", "href", refClassTrustedResourceURL},
}

func c04Ctx(cc c04Chain, value string) context {
	if cc.attr == "" {
		return context{state: stateSpecialElementBody, element: element{name: cc.elem}}
	}
	return vAttrContext(cc.elem, cc.attr, value, delimDoubleQuote, "")
}

// typed-only contexts never accept plain strings
func vHarness_C04_typedonly() {
	cc := c04TypedOnly[vParam("ctx")]
	d := vNondetString("d", vParam("n"))
	chain, err := sanitizerForContext(c04Ctx(cc, ""))
	vAssert(err == nil, "the context is listed")
	if err != nil {
		return
	}
	_, derr := vApplyChain(chain, d)
	vReach("ran")
	vAssert(derr != nil, "a typed-only context accepts a plain string")
}

var c04Enums = []c04Chain{{"script", "async", refClassAsyncEnum}, {"div", "dir", refClassDirEnum}, {"img", "loading", refClassLoadingEnum}, {"a", "target", refClassTargetEnum}}

func c04Words(class uint8) []string {
	switch class {
	case refClassAsyncEnum:
		return refAsyncEnumWords
	case refClassDirEnum:
		return refDirEnumWords
	case refClassLoadingEnum:
		return refLoadingEnumWords
	}
	return refTargetEnumWords
}

// enumerated contexts emit only listed words and refuse static partial values
func vHarness_C04_enum() {
	cc := c04Enums[vParam("ctx")]
	d := vNondetString("d", vParam("n"))
	chain, err := sanitizerForContext(c04Ctx(cc, ""))
	vAssert(err == nil, "the context is listed")
	if err != nil {
		return
	}
	out, derr := vApplyChain(chain, d)
	if derr == nil {
		vReach("word")
		listed := false
		for _, w := range c04Words(cc.class) {
			listed = listed || out == w
		}
		vAssert(listed, "an enumerated context emits something that is not one of the listed words")
		vAssert(out == d, "an enumerated context emits something other than the accepted input")
	}
	p := vNondetString("p", 1)
	_, perr := sanitizerForContext(c04Ctx(cc, p))
	vAssert(perr != nil, "an enumerated context accepts an action after a static partial value")
}

func vProbe_C04_attr(a []string) string {
	sc, err := sanitizationContextForAttrVal(a[0], a[1], c04Rels[int(a[2][0])%len(c04Rels)])
	if err != nil {
		return "reject"
	}
	return string([]byte{'A' + c04ClassOf(sc)})
}

func vProbe_C04_ref(a []string) string {
	return string([]byte{'A' + refAttrClass(a[0], a[1], c04Rels[int(a[2][0])%len(c04Rels)])})
}

// URL contexts always run the URL sanitizer and the normalizer: for every (element,
// attribute) pair whose reviewed class is URL-valued, the sanitizer chain chosen for an
// action at the start of the quoted value holds the class's sanitizer and _normalizeURL.
func vHarness_C04_urlchain() {
	le, la := vParam("le"), vParam("la")
	rel := c04Rels[vParam("rel")]
	e := vNondetString("e", le)
	a := vNondetString("a", la)
	c := vAttrContext(e, a, "", delimDoubleQuote, rel)
	chain, err := sanitizerForContext(c)
	if err != nil {
		vReach("rejected")
		return
	}
	want := refAttrClass(e, a, rel)
	if want != refClassURL && want != refClassTrustedResourceURLOrURL && want != refClassTrustedResourceURL {
		return
	}
	vReach("url-context")
	san, norm := false, false
	for _, f := range chain {
		if f == sanitizeURLFuncName || f == sanitizeTrustedResourceURLOrURLFuncName || f == sanitizeTrustedResourceURLFuncName {
			san = true
		}
		if f == normalizeURLFuncName {
			norm = true
		}
	}
	vAssert(san, "a URL-valued attribute runs no URL sanitizer")
	vAssert(norm, "a URL-valued attribute does not run the URL normalizer")
}
