#!/bin/sh
# usage: checks/run.sh <property id> <quick|thorough>
# Runs the solver-based check of one property against /repo's current working tree.
set -u
cd "$(dirname "$0")/.."
export GOFLAGS=-mod=mod GOPROXY=off GOSUMDB=off GOTOOLCHAIN=local
if [ ! -x bin/symgo ] || [ -n "$(find engine -newer bin/symgo -name '*.go' 2>/dev/null | head -1)" ]; then
  (cd engine && go build -o ../bin/symgo ./cmd/symgo) || { echo "INCONCLUSIVE property=$1 reason=engine build failed"; exit 2; }
fi
exec ./bin/symgo check -prop "$1" -tier "${2:-${VERIF_TIER:-quick}}" -repo "${VERIF_REPO:-/repo}" -verif "$(pwd)"
