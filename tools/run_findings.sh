#!/bin/sh
# Runs the end-to-end demonstrations of the recorded findings against /repo.
set -e
d=$(mktemp -d /tmp/findings-XXXXXX)
trap 'rm -rf "$d"' EXIT
cp "$(dirname "$0")/../findings/findings_test.go" "$d/"
cat > "$d/go.mod" <<EOT
module findings
go 1.16
require github.com/google/safehtml v0.0.0
replace github.com/google/safehtml => ${VERIF_REPO:-/repo}
require golang.org/x/text v0.3.3
EOT
cp ${VERIF_REPO:-/repo}/go.sum "$d/"
cd "$d" && GOFLAGS=-mod=mod GOPROXY=off GOSUMDB=off GOTOOLCHAIN=local go test -count=1 -v ./... 2>&1 | grep -v "^=== "
