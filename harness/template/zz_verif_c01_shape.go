package template

import (
	"text/template"
	"text/template/parse"
)

// C01, composition over a branch: the real escaper (escapeList / escapeBranch / join /
// escapeAction / escapeText) is run over a hand-built parse tree of the shape
//
//	P ++ T0  {{if .C}} T1 {{else}} T2 {{end}}  T3  {{.D}}  T4
//
// with P a concrete prefix and T0..T4 symbolic texts. The harness then assembles what
// Execute would write for both values of C - the rewritten texts and the sanitizer chain
// recorded for the action - with an inert and with a symbolic data value, and compares the
// two token streams.

var c01ShapePrefixes = []string{"", "<p>", `<a href="`, `<p title='`, "<p ", "<p", "<title>", "<script>", "<!--", `<p title=`, `<p title`, `<a href`, "<iframe>"}

func c01TextNode(s string) *parse.TextNode {
	return &parse.TextNode{NodeType: parse.NodeText, Text: []byte(s)}
}

func c01DotPipe() *parse.PipeNode {
	return &parse.PipeNode{NodeType: parse.NodePipe, Cmds: []*parse.CommandNode{{NodeType: parse.NodeCommand, Args: []parse.Node{&parse.DotNode{NodeType: parse.NodeDot}}}}}
}

func c01Rewritten(e *escaper, n *parse.TextNode) string {
	if edit, ok := e.textNodeEdits[n]; ok {
		return string(edit)
	}
	return string(n.Text)
}

// c01ShapeSuffix closes what the prefix opened where the template could not end in text otherwise.
func c01ShapeSuffix(p string) string {
	if p == "<iframe>" {
		return "</iframe>"
	}
	return ""
}

func vHarness_C01_shape() {
	p := c01ShapePrefixes[vParam("prefix")]
	s0 := vNondetString("t0", vParam("n0"))
	s1 := vNondetString("t1", vParam("n1"))
	s2 := vNondetString("t2", vParam("n2"))
	s3 := vNondetString("t3", vParam("n3"))
	s4 := vNondetString("t4", vParam("n4"))
	d := vNondetString("d", vParam("nd"))
	vASCII(s0)
	vASCII(s1)
	vASCII(s2)
	vASCII(s3)
	vASCII(s4)
	t0, t1, t2, t3, t4 := c01TextNode(p+s0), c01TextNode(s1), c01TextNode(s2), c01TextNode(s3), c01TextNode(s4+c01ShapeSuffix(p))
	action := &parse.ActionNode{NodeType: parse.NodeAction, Pipe: c01DotPipe()}
	ifn := &parse.IfNode{BranchNode: parse.BranchNode{NodeType: parse.NodeIf, Pipe: c01DotPipe(),
		List: &parse.ListNode{NodeType: parse.NodeList, Nodes: []parse.Node{t1}}, ElseList: &parse.ListNode{NodeType: parse.NodeList, Nodes: []parse.Node{t2}}}}
	root := &parse.ListNode{NodeType: parse.NodeList, Nodes: []parse.Node{t0, ifn, t3, action, t4}}
	e := &escaper{ns: &nameSpace{}, output: map[string]context{}, derived: map[string]*template.Template{}, called: map[string]bool{},
		actionNodeEdits: map[*parse.ActionNode][]string{}, templateNodeEdits: map[*parse.TemplateNode]string{}, textNodeEdits: map[*parse.TextNode][]byte{}}
	c := e.escapeList(context{}, root)
	if c.state != stateText {
		vReach("rejected") // an error, or a template that does not end in text: Execute fails
		return
	}
	vReach("accepted")
	chain := e.actionNodeEdits[action]
	hostile, herr := vApplyChain(chain, d)
	inert, ierr := vApplyChain(chain, "x")
	if herr != nil || ierr != nil {
		return // a run-time sanitizer error: nothing is written
	}
	r0, r1, r2, r3, r4 := c01Rewritten(e, t0), c01Rewritten(e, t1), c01Rewritten(e, t2), c01Rewritten(e, t3), c01Rewritten(e, t4)
	for branch := 0; branch < 2; branch++ {
		mid := r1
		if branch == 1 {
			mid = r2
		}
		var a, b tok
		a.run(r0)
		b.run(r0)
		a.run(mid)
		b.run(mid)
		a.run(r3)
		b.run(r3)
		split := a.st == kTagName // the action follows a tag name directly (rejected) - or a later text continues one
		a.run(inert)
		b.run(hostile)
		a.run(r4)
		b.run(r4)
		rawK := c01UnknownRaw(&a) || c01UnknownRaw(&b)
		scrK := c01ScriptEsc(&a) || c01ScriptEsc(&b)
		// text nodes that continue a tag name begun in an earlier node
		var q tok
		q.run(r0)
		contK := q.st == kTagName && len(mid) > 0 && !tokWS(mid[0]) && mid[0] != '/' && mid[0] != '>'
		q.run(mid)
		contK = contK || (q.st == kTagName && len(r3) > 0 && !tokWS(r3[0]) && r3[0] != '/' && r3[0] != '>')
		oddK := a.odd || b.odd || contK || split
		same := a.st == b.st && a.raw == b.raw && a.starts == b.starts && a.ends == b.ends && a.attrs == b.attrs && a.comments == b.comments && a.fp == b.fp
		c01Assert(same, "untrusted data changed the tags, attributes, comments or the final tokenizer state of the output", rawK, scrK, oddK, a.oddSlash || b.oddSlash, a.oddCmt || b.oddCmt)
		c01Assert(a.comments == 0 && b.comments == 0, "the output contains a comment token", rawK, scrK, oddK, a.oddSlash || b.oddSlash, a.oddCmt || b.oddCmt)
	}
}

// C01, composition over a loop: the real escaper over
//
//	P ++ T0  {{range .}} T1 {{.}} T2 {{end}}  T3
//
// What Execute writes for zero, one and two iterations is assembled from the rewritten
// texts and the sanitizer chain of the action; the token stream with an inert value must
// equal the one with symbolic values.
func vHarness_C01_range() {
	p := c01ShapePrefixes[vParam("prefix")]
	s0 := vNondetString("t0", vParam("n0"))
	s1 := vNondetString("t1", vParam("n1"))
	s2 := vNondetString("t2", vParam("n2"))
	s3 := vNondetString("t3", vParam("n3"))
	d := vNondetString("d", vParam("nd"))
	vASCII(s0)
	vASCII(s1)
	vASCII(s2)
	vASCII(s3)
	t0, t1, t2, t3 := c01TextNode(p+s0), c01TextNode(s1), c01TextNode(s2), c01TextNode(s3)
	action := &parse.ActionNode{NodeType: parse.NodeAction, Pipe: c01DotPipe()}
	rn := &parse.RangeNode{BranchNode: parse.BranchNode{NodeType: parse.NodeRange, Pipe: c01DotPipe(),
		List: &parse.ListNode{NodeType: parse.NodeList, Nodes: []parse.Node{t1, action, t2}}}}
	root := &parse.ListNode{NodeType: parse.NodeList, Nodes: []parse.Node{t0, rn, t3}}
	e := &escaper{ns: &nameSpace{}, output: map[string]context{}, derived: map[string]*template.Template{}, called: map[string]bool{},
		actionNodeEdits: map[*parse.ActionNode][]string{}, templateNodeEdits: map[*parse.TemplateNode]string{}, textNodeEdits: map[*parse.TextNode][]byte{}}
	c := e.escapeList(context{}, root)
	if c.state != stateText {
		vReach("rejected")
		return
	}
	vReach("accepted")
	chain := e.actionNodeEdits[action]
	hostile, herr := vApplyChain(chain, d)
	inert, ierr := vApplyChain(chain, "x")
	if herr != nil || ierr != nil {
		return
	}
	r0, r1, r2, r3 := c01Rewritten(e, t0), c01Rewritten(e, t1), c01Rewritten(e, t2), c01Rewritten(e, t3)
	for iters := 0; iters <= 2; iters++ {
		var a, b tok
		a.run(r0)
		b.run(r0)
		split := false
		contK := a.st == kTagName && ((iters > 0 && len(r1) > 0 && !tokWS(r1[0]) && r1[0] != '/' && r1[0] != '>') || (iters == 0 && len(r3) > 0 && !tokWS(r3[0]) && r3[0] != '/' && r3[0] != '>'))
		for k := 0; k < iters; k++ {
			a.run(r1)
			b.run(r1)
			split = split || a.st == kTagName
			a.run(inert)
			b.run(hostile)
			a.run(r2)
			b.run(r2)
			nxt := r3
			if k+1 < iters {
				nxt = r1
			}
			contK = contK || (a.st == kTagName && len(nxt) > 0 && !tokWS(nxt[0]) && nxt[0] != '/' && nxt[0] != '>')
		}
		a.run(r3)
		b.run(r3)
		rawK := c01UnknownRaw(&a) || c01UnknownRaw(&b)
		scrK := c01ScriptEsc(&a) || c01ScriptEsc(&b)
		oddK := a.odd || b.odd || contK || split
		same := a.st == b.st && a.raw == b.raw && a.starts == b.starts && a.ends == b.ends && a.attrs == b.attrs && a.comments == b.comments && a.fp == b.fp
		c01Assert(same, "untrusted data changed the tags, attributes, comments or the final tokenizer state of the output of a loop", rawK, scrK, oddK, a.oddSlash || b.oddSlash, a.oddCmt || b.oddCmt)
		c01Assert(a.comments == 0 && b.comments == 0, "the output of a loop contains a comment token", rawK, scrK, oddK, a.oddSlash || b.oddSlash, a.oddCmt || b.oddCmt)
	}
}

// C01, loop exits: {{break}} / {{continue}} inside a loop body
//
//	P ++ T0 {{range .}} T1 {{if .}}{{break|continue}}{{end}} T2 {{end}} T3 {{.}} T4
//
// The escaper has no rule for these nodes and panics (the template is never executed). If
// it ever accepts them, the context in which the loop is left early has to agree with the
// one assumed for T3: the harness assembles the output for an early exit in the first
// iteration, for a skipped remainder followed by a full iteration, and for a full iteration.
func vHarness_C01_loopexit() {
	p := c01ShapePrefixes[vParam("prefix")]
	s0 := vNondetString("t0", vParam("n0"))
	s1 := vNondetString("t1", vParam("n1"))
	s2 := vNondetString("t2", vParam("n2"))
	s3 := vNondetString("t3", vParam("n3"))
	s4 := vNondetString("t4", vParam("n4"))
	d := vNondetString("d", vParam("nd"))
	vASCII(s0)
	vASCII(s1)
	vASCII(s2)
	vASCII(s3)
	vASCII(s4)
	t0, t1, t2, t3, t4 := c01TextNode(p+s0), c01TextNode(s1), c01TextNode(s2), c01TextNode(s3), c01TextNode(s4)
	action := &parse.ActionNode{NodeType: parse.NodeAction, Pipe: c01DotPipe()}
	var exit parse.Node = &parse.BreakNode{NodeType: parse.NodeBreak}
	isBreak := vParam("kind") == 0
	if !isBreak {
		exit = &parse.ContinueNode{NodeType: parse.NodeContinue}
	}
	ifn := &parse.IfNode{BranchNode: parse.BranchNode{NodeType: parse.NodeIf, Pipe: c01DotPipe(),
		List: &parse.ListNode{NodeType: parse.NodeList, Nodes: []parse.Node{exit}}}}
	rn := &parse.RangeNode{BranchNode: parse.BranchNode{NodeType: parse.NodeRange, Pipe: c01DotPipe(),
		List: &parse.ListNode{NodeType: parse.NodeList, Nodes: []parse.Node{t1, ifn, t2}}}}
	root := &parse.ListNode{NodeType: parse.NodeList, Nodes: []parse.Node{t0, rn, t3, action, t4}}
	e := &escaper{ns: &nameSpace{}, output: map[string]context{}, derived: map[string]*template.Template{}, called: map[string]bool{},
		actionNodeEdits: map[*parse.ActionNode][]string{}, templateNodeEdits: map[*parse.TemplateNode]string{}, textNodeEdits: map[*parse.TextNode][]byte{}}
	var c context
	if vPanics(func() { c = e.escapeList(context{}, root) }) {
		vReach("rejected") // the escaper refuses the node: nothing is executed
		return
	}
	if c.state != stateText {
		vReach("rejected")
		return
	}
	vReach("accepted")
	chain := e.actionNodeEdits[action]
	hostile, herr := vApplyChain(chain, d)
	inert, ierr := vApplyChain(chain, "x")
	if herr != nil || ierr != nil {
		return
	}
	r0, r1, r2, r3, r4 := c01Rewritten(e, t0), c01Rewritten(e, t1), c01Rewritten(e, t2), c01Rewritten(e, t3), c01Rewritten(e, t4)
	for shape := 0; shape < 2; shape++ {
		var a, b tok
		a.run(r0)
		b.run(r0)
		a.run(r1)
		b.run(r1)
		if shape == 0 {
			// early exit in the first iteration
			if !isBreak {
				// continue: a second, full iteration follows
				a.run(r1)
				b.run(r1)
				a.run(r2)
				b.run(r2)
			}
		} else {
			a.run(r2)
			b.run(r2)
		}
		a.run(r3)
		b.run(r3)
		split := a.st == kTagName
		a.run(inert)
		b.run(hostile)
		a.run(r4)
		b.run(r4)
		rawK := c01UnknownRaw(&a) || c01UnknownRaw(&b)
		scrK := c01ScriptEsc(&a) || c01ScriptEsc(&b)
		var q tok
		q.run(r0)
		contK := q.st == kTagName && len(r1) > 0 && !tokWS(r1[0]) && r1[0] != '/' && r1[0] != '>'
		q.run(r1)
		contK = contK || (q.st == kTagName && ((len(r2) > 0 && !tokWS(r2[0]) && r2[0] != '/' && r2[0] != '>') || (len(r3) > 0 && !tokWS(r3[0]) && r3[0] != '/' && r3[0] != '>') || (len(r1) > 0 && !tokWS(r1[0]) && r1[0] != '/' && r1[0] != '>')))
		q.run(r2)
		contK = contK || (q.st == kTagName && len(r3) > 0 && !tokWS(r3[0]) && r3[0] != '/' && r3[0] != '>')
		oddK := a.odd || b.odd || contK || split
		same := a.st == b.st && a.raw == b.raw && a.starts == b.starts && a.ends == b.ends && a.attrs == b.attrs && a.comments == b.comments && a.fp == b.fp
		c01Assert(same, "untrusted data changed the tags, attributes, comments or the final tokenizer state of the output after an early loop exit", rawK, scrK, oddK, a.oddSlash || b.oddSlash, a.oddCmt || b.oddCmt)
	}
}
