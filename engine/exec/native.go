package exec

import (
	"go/types"
	"strconv"

	"golang.org/x/tools/go/ssa"

	"symgo/smt"
)

// NativeDriver is engine code that needs to call back into interpreted code
// (ReplaceAllStringFunc, sync.Once.Do). It runs as a frame of its own.
type NativeDriver struct {
	Kind   string
	Data   interface{}
	Resume func(x *Exec, s *State, f *Frame)
}

// nativeCall as an outcome value asks the interpreter to push a native frame.
type nativeCall struct{ d *NativeDriver }

// callValue pushes a frame for a function value; the result is delivered to the
// native frame below it.
func (x *Exec) callValue(s *State, fv Value, args []Value) {
	switch fn := fv.(type) {
	case *ssa.Function:
		if in, ok := x.W.intrinsics[fn.String()]; ok {
			outs := in(x, s, args, nil)
			if len(outs) != 1 || outs[0].Cond != smt.True || outs[0].Panic != "" {
				unsupported("forking intrinsic %s used as a callback", fn)
			}
			f := s.top()
			f.NatRet, f.NatHasRet = outs[0].Val, true
			return
		}
		x.pushFrame(s, fn, args, nil, nil)
	case *Closure:
		x.pushFrame(s, fn.Fn, args, fn.Env, nil)
	default:
		unsupported("callback of %T", fv)
	}
}

// deliver puts the result of the current instruction into the state and advances.
func (x *Exec) deliver(cs *State, v Value) {
	if lv, ok := v.(lazyVal); ok {
		v = lv.mk(cs)
	}
	if nc, ok := v.(nativeCall); ok {
		f := cs.top()
		call, _ := f.Block.Instrs[f.IP].(ssa.CallInstruction)
		nf := &Frame{Nat: nc.d, Call: call, Regs: map[ssa.Value]Value{}, Visits: map[*ssa.BasicBlock]int{}}
		cs.Frames = append(cs.Frames, nf)
		return
	}
	setResult(cs, v)
}

type onceData struct {
	p  Ptr
	fn Value
}

func inOnceDo(x *Exec, s *State, a []Value, _ *ssa.Call) []Outcome {
	p := a[0].(Ptr)
	if t, ok := s.load(p).(*smt.Term); ok && t == smt.True {
		return one(nil)
	}
	return []Outcome{{Cond: smt.True, Val: nativeCall{&NativeDriver{Kind: "Once.Do", Data: &onceData{p, a[1]}, Resume: func(x *Exec, s *State, f *Frame) {
		d := f.Nat.Data.(*onceData)
		if !f.NatHasRet {
			x.callValue(s, d.fn, nil)
			return
		}
		s.store(d.p, smt.True)
		x.popFrame(s, nil)
	}}}}}
}

func parseFloatErr(x *Exec, cs string) Value {
	if _, err := strconv.ParseFloat(cs, 64); err != nil {
		return Iface{T: x.W.ErrType, V: x.W.newExt("error", nil)}
	}
	return Iface{}
}

func (x *Exec) noteAssume(a string) {
	for _, e := range x.Assumes {
		if e == a {
			return
		}
	}
	x.Assumes = append(x.Assumes, a)
}

// inJSONMarshal models encoding/json.Marshal(v) for v of dynamic type string by running
// the real encoding/json.appendString[string](nil, v, true) from the standard library's
// SSA (what stringEncoder does with escapeHTML set); other dynamic types are outside
// the encodable fragment.
func inJSONMarshal(x *Exec, s *State, a []Value, _ *ssa.Call) []Outcome {
	iv, ok := a[0].(Iface)
	if !ok || iv.T == nil {
		unsupported("json.Marshal of nil/unknown value")
	}
	if iv.T.String() == "encoding/json.RawMessage" {
		return x.jsonRaw(s, iv.V, smt.True, nil)
	}
	if !isString(iv.T) {
		unsupported("json.Marshal of dynamic type %s (only string and json.RawMessage data are encoded by the engine)", iv.T)
	}
	fn := x.W.jsonAppendString()
	if fn == nil {
		unsupported("encoding/json.appendString[string] not found in the SSA program")
	}
	arg := iv.V
	return []Outcome{{Cond: smt.True, Val: nativeCall{&NativeDriver{Kind: "json.Marshal", Data: fn, Resume: func(x *Exec, s *State, f *Frame) {
		if !f.NatHasRet {
			x.callValue(s, fn, []Value{Slice{}, arg, smt.True})
			return
		}
		x.popFrame(s, Tuple{f.NatRet, Iface{}})
	}}}}}
}

// ---------- reflect-based helpers of the repository, modelled on the finite set of
// dynamic types the harnesses pass (strings, the safe types, pointers to them, nil) ----------

func hasMethod(t types.Type, name string) bool {
	ms := types.NewMethodSet(t)
	for i := 0; i < ms.Len(); i++ {
		if ms.At(i).Obj().Name() == name {
			return true
		}
	}
	return false
}

// inIndirect is safehtmlutil.Indirect: dereference pointers down to the base value (or a nil pointer).
func inIndirect(x *Exec, s *State, a []Value, _ *ssa.Call) []Outcome {
	iv := a[0].(Iface)
	for iv.T != nil {
		pt, ok := iv.T.Underlying().(*types.Pointer)
		if !ok {
			break
		}
		p, isP := iv.V.(Ptr)
		if !isP {
			unsupported("Indirect: pointer-typed interface holding %T", iv.V)
		}
		if p.Obj == 0 {
			break
		}
		iv = Iface{T: pt.Elem(), V: s.load(p)}
	}
	return one(iv)
}

// inIndirectToStringer is indirectToStringerOrError (both copies).
func inIndirectToStringer(x *Exec, s *State, a []Value, _ *ssa.Call) []Outcome {
	iv := a[0].(Iface)
	for iv.T != nil {
		if hasMethod(iv.T, "String") || hasMethod(iv.T, "Error") {
			break
		}
		pt, ok := iv.T.Underlying().(*types.Pointer)
		if !ok {
			break
		}
		p, isP := iv.V.(Ptr)
		if !isP {
			unsupported("indirectToStringerOrError: pointer-typed interface holding %T", iv.V)
		}
		if p.Obj == 0 {
			break
		}
		iv = Iface{T: pt.Elem(), V: s.load(p)}
	}
	return one(iv)
}

// jsonRaw models what encoding/json does with a json.RawMessage value (marshalerEncoder):
// MarshalJSON returns the bytes ("null" for a nil message) and the real
// encoding/json.appendCompact(nil, b, escapeHTML), run from the standard library's SSA,
// validates and compacts them. deliver (optional) post-processes the result bytes.
func (x *Exec) jsonRaw(s *State, raw Value, escape *smt.Term, finish func(x *Exec, s *State, out Value, err Iface) Value) []Outcome {
	pkg := x.W.Prog.ImportedPackage("encoding/json")
	if pkg == nil || pkg.Func("appendCompact") == nil {
		unsupported("encoding/json.appendCompact not found in the SSA program")
	}
	fn := pkg.Func("appendCompact")
	sl, ok := raw.(Slice)
	if !ok {
		unsupported("json.RawMessage held as %T", raw)
	}
	return []Outcome{{Cond: smt.True, Val: nativeCall{&NativeDriver{Kind: "json.RawMessage", Data: fn, Resume: func(x *Exec, s *State, f *Frame) {
		if !f.NatHasRet {
			arg := Value(sl)
			if sl.Obj == 0 {
				arg = s.newByteSlice(StrOf("null"))
			}
			x.callValue(s, fn, []Value{Slice{}, arg, escape})
			return
		}
		t := f.NatRet.(Tuple)
		errI, _ := t[1].(Iface)
		if errI.T != nil {
			// encoding/json wraps the syntax error in a *MarshalerError
			errI = Iface{T: x.W.ErrType, V: x.W.newExt("error", nil)}
			if finish != nil {
				x.popFrame(s, finish(x, s, Slice{}, errI))
				return
			}
			x.popFrame(s, Tuple{Slice{}, errI})
			return
		}
		if finish != nil {
			x.popFrame(s, finish(x, s, t[0], Iface{}))
			return
		}
		x.popFrame(s, Tuple{t[0], Iface{}})
	}}}}}
}

// inJSONEncode models (*json.Encoder).Encode(v) for string and json.RawMessage data: the
// bytes Marshal would produce under the encoder's escapeHTML setting, a newline, written to
// the encoder's writer (a *bytes.Buffer).
func inJSONEncode(x *Exec, s *State, a []Value, _ *ssa.Call) []Outcome {
	ep := a[0].(Ptr)
	enc := s.load(ep).(*StructVal) // {w io.Writer; err error; escapeHTML bool; ...}
	if e, ok := enc.F[1].(Iface); ok && e.T != nil {
		return one(e)
	}
	w, ok := enc.F[0].(Iface)
	if !ok || w.T == nil || w.T.String() != "*bytes.Buffer" {
		unsupported("json.Encoder writing to %v", w.T)
	}
	bp := w.V.(Ptr)
	escape, ok := enc.F[2].(*smt.Term)
	if !ok {
		unsupported("json.Encoder with unexpected escapeHTML field")
	}
	iv, ok := a[1].(Iface)
	if !ok || iv.T == nil {
		unsupported("json.Encoder.Encode of nil/unknown value")
	}
	finish := func(x *Exec, s *State, out Value, err Iface) Value {
		if err.T != nil {
			return err
		}
		bufAppend(s, bp, concatStr(s.bytesOf(out.(Slice)), StrOf("\n")))
		return Iface{}
	}
	if iv.T.String() == "encoding/json.RawMessage" {
		return x.jsonRaw(s, iv.V, escape, finish)
	}
	if !isString(iv.T) {
		unsupported("json.Encoder.Encode of dynamic type %s (only string and json.RawMessage data are encoded by the engine)", iv.T)
	}
	fn := x.W.jsonAppendString()
	if fn == nil {
		unsupported("encoding/json.appendString[string] not found in the SSA program")
	}
	arg := iv.V
	return []Outcome{{Cond: smt.True, Val: nativeCall{&NativeDriver{Kind: "json.Encode", Data: fn, Resume: func(x *Exec, s *State, f *Frame) {
		if !f.NatHasRet {
			x.callValue(s, fn, []Value{Slice{}, arg, escape})
			return
		}
		x.popFrame(s, finish(x, s, f.NatRet, Iface{}))
	}}}}}
}

type poolData struct{ fn Value }

// inPoolGet models (*sync.Pool).Get on an empty pool: the result of New (nil without New).
func inPoolGet(x *Exec, s *State, a []Value, _ *ssa.Call) []Outcome {
	p := a[0].(Ptr)
	sv, ok := s.load(p).(*StructVal)
	if !ok {
		unsupported("sync.Pool with unexpected representation")
	}
	newFn := sv.F[len(sv.F)-1]
	if _, isNil := newFn.(NilFunc); isNil {
		return one(Iface{})
	}
	return []Outcome{{Cond: smt.True, Val: nativeCall{&NativeDriver{Kind: "Pool.Get", Data: &poolData{newFn}, Resume: func(x *Exec, s *State, f *Frame) {
		if !f.NatHasRet {
			x.callValue(s, f.Nat.Data.(*poolData).fn, nil)
			return
		}
		x.popFrame(s, f.NatRet)
	}}}}}
}
