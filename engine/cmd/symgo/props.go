package main

var props = map[string]*Prop{}

func reg(p *Prop) { props[p.ID] = p }

const identAlphabet = "abzAZ09-_ \n\x00:.$"

func init() {
	reg(&Prop{
		ID:    "C18",
		Title: "Identifier constructors admit only [A-Za-z][-_A-Za-z0-9]*, keep constant prefix",
		Harnesses: []HarnessSpec{
			{Pkg: "safehtml", Name: "vHarness_C18_constant", Quick: []ParamRange{{"n", 0, 8}}, Thorough: []ParamRange{{"n", 0, 16}}, Reach: []string{"accepted"},
				Desc: "IdentifierFromConstant(v): no panic => result == v and matches the byte-level recogniser"},
			{Pkg: "safehtml", Name: "vHarness_C18_prefix", Quick: []ParamRange{{"np", 0, 3}, {"n", 0, 6}}, Thorough: []ParamRange{{"np", 0, 4}, {"n", 0, 12}}, Reach: []string{"accepted"},
				Desc: "IdentifierFromConstantPrefix(p, v): no panic => result == p-v and matches the recogniser"},
		},
		Probes: []ProbeSpec{
			{Pkg: "safehtml", Name: "vProbe_C18_constant", NArgs: 1, Alphabet: identAlphabet, MaxLen: 8, N: 300, TestDir: ".", Extra: []string{"a\n", "a\xc3\xa9", "\xe2\x84\xaa", "A-_9"}},
			{Pkg: "safehtml", Name: "vProbe_C18_prefix", NArgs: 2, Alphabet: identAlphabet, MaxLen: 6, N: 300, Extra: []string{"a", "a\n", "b-", ""}},
		},
		Functions: []string{"safehtml.IdentifierFromConstant", "safehtml.IdentifierFromConstantPrefix", "safehtml.Identifier.String",
			"regexp patterns startsWithAlphabetPattern, onlyAlphanumericsOrHyphenPattern (read from the current source by executing package init)"},
		Bounds: map[string]string{
			"quick":    "value: every byte string of length 0..8 (constant form); prefix 0..3 bytes x value 0..6 bytes (prefix form); all 256 byte values per position",
			"thorough": "value: every byte string of length 0..16; prefix 0..4 x value 0..12",
		},
		Outside:    []string{"strings longer than the bounds", "the compile-time constant requirement on the prefix (C19)"},
		Intrinsics: []string{"regexp.MustCompile/MatchString = symbolic Thompson simulation of regexp/syntax's compiled program over UTF-8 decodings", "fmt.Sprintf feeding panic: not evaluated"},
	})

	reg(&Prop{
		ID:    "C20",
		Title: "TrustedSourceFromConstantDir keeps dynamic filenames inside the constant dir",
		Harnesses: []HarnessSpec{
			{Pkg: "template", Name: "vHarness_C20_dir", Quick: []ParamRange{{"pair", 0, 9}, {"n", 0, 6}}, Thorough: []ParamRange{{"pair", 0, 9}, {"n", 0, 12}}, Reach: []string{"accepted"},
				Desc: "for 10 (dir, src) pairs and every filename: success => no separator, no list separator, not '..', result == cleaned dir/src or its direct child"},
		},
		Probes: []ProbeSpec{
			{Pkg: "template", Name: "vProbe_C20_dir", NArgs: 3, Alphabet: "ab./:\\\x00 ", MaxLen: 6, N: 600, Extra: []string{"..", ".", "", "a/b", "../x", "a:b"}},
		},
		Functions: []string{"template.TrustedSourceFromConstantDir", "template.TrustedSource.String", "path/filepath.Join", "path/filepath.join", "path/filepath.Clean",
			"internal/filepathlite.Clean", "internal/filepathlite.(*lazybuf).{index,append,string}", "internal/filepathlite.volumeNameLen", "os.IsPathSeparator (stdlib bodies executed from SSA, linux)"},
		Bounds: map[string]string{
			"quick":    "filename: every byte string of length 0..6; (dir, src) from 10 representative constant pairs incl. empty, '.', '/', '..', unclean ones",
			"thorough": "filename: every byte string of length 0..12; same 10 pairs",
		},
		Outside:    []string{"filenames longer than the bound", "GOOS other than linux (separator '/', list separator ':')", "symlinks, NUL handling by the OS", "dir/src values other than the 10 pairs"},
		Intrinsics: []string{"strings.IndexAny, strings.Join: direct byte-vector definitions", "fmt.Errorf: opaque error token"},
	})

	urlAlphabet := "javscriptJAVSCRIPT:/?#&;x0+.- \t\n\r\x00\x01%="
	kLess := func(p map[string]int) bool { return p["k"] < p["n"] }
	reg(&Prop{
		ID:    "C11",
		Title: "URLSanitized returns its input or the innocuous URL, and never a javascript: URL",
		Harnesses: []HarnessSpec{
			{Pkg: "safehtml", Name: "vHarness_C11_sound", Quick: []ParamRange{{"ascii", 1, 1}, {"n", 0, 16}}, Thorough: []ParamRange{{"ascii", 1, 1}, {"n", 0, 24}}, Reach: []string{"accepted", "rejected"},
				Desc: "ASCII regime: out in {s, innocuous}; out == s => WHATWG scheme scanner finds no javascript scheme and no '&' before the scheme decision point"},
			{Pkg: "safehtml", Name: "vHarness_C11_sound", Quick: []ParamRange{{"ascii", 0, 0}, {"n", 0, 4}}, Thorough: []ParamRange{{"ascii", 0, 0}, {"n", 0, 6}},
				Desc: "general regime (arbitrary bytes, invalid UTF-8, U+0130, U+212A, ...): same obligations"},
			{Pkg: "safehtml", Name: "vHarness_C11_unescaped", Quick: []ParamRange{{"n", 0, 6}}, Thorough: []ParamRange{{"n", 0, 8}}, Reach: []string{"accepted"},
				Desc: "direct form of the character-reference clause: the real html.UnescapeString (executed from stdlib SSA with the real entity tables) of an accepted ASCII string has no javascript scheme"},
			{Pkg: "safehtml", Name: "vHarness_C11_complete_scheme", Quick: []ParamRange{{"ascii", 1, 1}, {"n", 2, 13}, {"k", 1, 12}}, Thorough: []ParamRange{{"ascii", 1, 1}, {"n", 2, 18}, {"k", 1, 17}}, Filter: kLess, Reach: []string{"premise"},
				Desc: "completeness (a): [A-Za-z0-9+.-]{k}: with scheme != javascript (any case) is returned unchanged"},
			{Pkg: "safehtml", Name: "vHarness_C11_complete_scheme", Quick: []ParamRange{{"ascii", 0, 0}, {"n", 2, 5}, {"k", 1, 4}}, Thorough: []ParamRange{{"ascii", 0, 0}, {"n", 2, 6}, {"k", 1, 5}}, Filter: kLess,
				Desc: "completeness (a), arbitrary bytes after the colon"},
			{Pkg: "safehtml", Name: "vHarness_C11_complete_relative", Quick: []ParamRange{{"ascii", 1, 1}, {"n", 0, 12}}, Thorough: []ParamRange{{"ascii", 1, 1}, {"n", 0, 18}}, Reach: []string{"premise"},
				Desc: "completeness (b): ':' and '&' only after the first '/', '?' or '#' => returned unchanged"},
			{Pkg: "safehtml", Name: "vHarness_C11_complete_relative", Quick: []ParamRange{{"ascii", 0, 0}, {"n", 0, 4}}, Thorough: []ParamRange{{"ascii", 0, 0}, {"n", 0, 5}},
				Desc: "completeness (b), arbitrary bytes"},
		},
		Probes: []ProbeSpec{
			{Pkg: "safehtml", Name: "vProbe_C11_sanitize", NArgs: 1, Alphabet: urlAlphabet, MaxLen: 14, N: 1500, TestDir: "template",
				Extra: []string{"javascript:alert(1)", "JaVaScRiPt:x", "java\tscript:x", " javascript:x", "javascr\u0130pt:x", "\u212a:x", "a\xffb:c", "&#106;avascript:x", "javascript&colon;x", "/a:b", "?x:y", "#:", "http://x", "x", ""}},
			{Pkg: "safehtml", Name: "vProbe_C11_ref", NArgs: 1, Alphabet: urlAlphabet, MaxLen: 14, N: 300, Extra: []string{"javascript:", "\x01 jAvAsCrIpT:", "java\nscript:", "javascriptx:", "javascrip:", "j:"}},
		},
		Functions: []string{"safehtml.URLSanitized", "safehtml.isSafeURL", "safehtml.URL.String", "safeURLPattern (from the current source)",
			"html.UnescapeString, html.unescapeEntity, html.populateMaps (stdlib SSA, real entity tables) in the _unescaped harness"},
		Bounds: map[string]string{
			"quick":    "ASCII strings of length 0..16 (all 128^n), arbitrary byte strings of length 0..4 (all 256^n); html.UnescapeString form: ASCII 0..6; completeness: ASCII 2..13 / 0..12, arbitrary bytes <= 5 / 4",
			"thorough": "ASCII strings 0..24, arbitrary byte strings 0..6; html.UnescapeString form: ASCII 0..8; completeness: ASCII up to 18, arbitrary bytes up to 6 / 5",
		},
		Outside: []string{"ASCII strings longer than the bound (a javascript: hidden behind more ignorable bytes than fit)", "non-ASCII strings longer than the smaller bound",
			"browser behaviour outside the WHATWG URL standard", "trailing C0/space stripping (cannot affect the scheme)"},
		Intrinsics: []string{"strings.ToLower: exact rune-wise model from unicode.CaseRanges (decode, map, encode)", "(*Regexp).FindStringSubmatch: leftmost-first backtracking over regexp/syntax's program, results guarded and decided by the solver",
			"sync.Once.Do, fmt.Errorf"},
	})
}
