package template

import (
	"github.com/google/safehtml"
	uc "github.com/google/safehtml/uncheckedconversions"
)

// C03: safe-type values bypass sanitization only in their own context; attribute values
// are always HTML-escaped.

const (
	c03HTML = iota
	c03Script
	c03Style
	c03StyleSheet
	c03URL
	c03TRU
	c03Identifier
)

// c03Value builds a value of safe type ti holding v, behind ind pointer indirections.
func c03Value(ti, ind int, v string) interface{} {
	switch ti {
	case c03HTML:
		x := uc.HTMLFromStringKnownToSatisfyTypeContract(v)
		p := &x
		switch ind {
		case 1:
			return p
		case 2:
			return &p
		}
		return x
	case c03Script:
		x := uc.ScriptFromStringKnownToSatisfyTypeContract(v)
		p := &x
		switch ind {
		case 1:
			return p
		case 2:
			return &p
		}
		return x
	case c03Style:
		x := uc.StyleFromStringKnownToSatisfyTypeContract(v)
		p := &x
		switch ind {
		case 1:
			return p
		case 2:
			return &p
		}
		return x
	case c03StyleSheet:
		x := uc.StyleSheetFromStringKnownToSatisfyTypeContract(v)
		p := &x
		switch ind {
		case 1:
			return p
		case 2:
			return &p
		}
		return x
	case c03URL:
		x := uc.URLFromStringKnownToSatisfyTypeContract(v)
		p := &x
		switch ind {
		case 1:
			return p
		case 2:
			return &p
		}
		return x
	case c03TRU:
		x := uc.TrustedResourceURLFromStringKnownToSatisfyTypeContract(v)
		p := &x
		switch ind {
		case 1:
			return p
		case 2:
			return &p
		}
		return x
	}
	x := uc.IdentifierFromStringKnownToSatisfyTypeContract(v)
	p := &x
	switch ind {
	case 1:
		return p
	case 2:
		return &p
	}
	return x
}

type c03Ctx struct {
	elem, attr, value, rel string
	own                    []int // safe types whose contract covers this context
	isAttr                 bool
}

var c03Contexts = []c03Ctx{
	{elem: "", own: []int{c03HTML}},                                   // 0 text outside any element
	{elem: "div", own: []int{c03HTML}},                                // 1 element content
	{elem: "title"},                                                   // 2 RCDATA
	{elem: "textarea"},                                                // 3 RCDATA
	{elem: "script", own: []int{c03Script}},                           // 4
	{elem: "style", own: []int{c03StyleSheet}},                        // 5
	{elem: "div", attr: "title", isAttr: true},                        // 6 None
	{elem: "div", attr: "data-x", isAttr: true},                       // 7 None (data-*)
	{elem: "form", attr: "action", isAttr: true, own: []int{c03URL}},  // 8 URL
	{elem: "a", attr: "href", isAttr: true, own: []int{c03URL, c03TRU}},      // 9 TrustedResourceURLOrURL
	{elem: "script", attr: "src", isAttr: true, own: []int{c03TRU}},          // 10 TrustedResourceURL
	{elem: "img", attr: "srcset", isAttr: true},                              // 11 URLSet
	{elem: "div", attr: "style", isAttr: true, own: []int{c03Style}},         // 12 Style
	{elem: "div", attr: "id", isAttr: true, own: []int{c03Identifier}},       // 13 Identifier
	{elem: "iframe", attr: "srcdoc", isAttr: true, own: []int{c03HTML}},      // 14 HTMLValOnly
	{elem: "script", attr: "async", isAttr: true},                            // 15 enum
	{elem: "div", attr: "dir", isAttr: true},                                 // 16 enum
	{elem: "img", attr: "loading", isAttr: true},                             // 17 enum
	{elem: "a", attr: "target", isAttr: true},                                // 18 enum
	{elem: "form", attr: "action", value: "/p?", isAttr: true},               // 19 URL after a query prefix
	{elem: "a", attr: "href", value: "/p/", isAttr: true},                    // 20 URL after a path prefix
	{elem: "script", attr: "src", value: "/p/", isAttr: true},                // 21 TrustedResourceURL after a prefix
	{elem: "link", attr: "href", rel: " icon ", isAttr: true, own: []int{c03URL, c03TRU}}, // 22
	{elem: "link", attr: "href", rel: " stylesheet ", isAttr: true, own: []int{c03TRU}},   // 23
}

func c03Context(cc c03Ctx, single bool) context {
	if !cc.isAttr {
		st := stateText
		if cc.elem == "title" || cc.elem == "textarea" || cc.elem == "script" || cc.elem == "style" {
			st = stateSpecialElementBody
		}
		return context{state: st, element: element{name: cc.elem}}
	}
	d := delimDoubleQuote
	if single {
		d = delimSingleQuote
	}
	return vAttrContext(cc.elem, cc.attr, cc.value, d, cc.rel)
}

// refAttrSafe: the text cannot leave a quoted attribute value or open a character
// reference other than the five the escaper emits.
func refAttrSafe(s string) bool {
	ok := true
	for i := 0; i < len(s); i++ {
		b := s[i]
		if b == '<' || b == '>' || b == '"' || b == '\'' {
			ok = false
		}
		if b == '&' {
			rest := s[i+1:]
			if !(refHasPrefix(rest, "amp;") || refHasPrefix(rest, "lt;") || refHasPrefix(rest, "gt;") || refHasPrefix(rest, "#34;") || refHasPrefix(rest, "#39;")) {
				ok = false
			}
		}
	}
	return ok
}

func vHarness_C03_matrix() {
	ti, ind, ci, n := vParam("type"), vParam("ind"), vParam("ctx"), vParam("n")
	cc := c03Contexts[ci]
	v := vNondetString("v", n)
	chain, err := sanitizerForContext(c03Context(cc, vParam("single") == 1))
	vAssert(err == nil, "the context is one the policy lists")
	if err != nil {
		return
	}
	typed, terr := vApplyChain(chain, c03Value(ti, ind, v))
	plain, perr := vApplyChain(chain, v)
	own := false
	for _, t := range cc.own {
		own = own || t == ti
	}
	if own {
		if typed != plain || (terr == nil) != (perr == nil) {
			vReach("bypass")
		}
	} else {
		vReach("foreign")
		known := ti == c03HTML && cc.isAttr
		vAssertKnown((terr == nil) == (perr == nil), "outside its own context a safe-type value is accepted or rejected like the plain string", "C03-html-in-attr", known)
		vAssertKnown(typed == plain, "outside its own context a safe-type value is emitted like the plain string with the same contents", "C03-html-in-attr", known)
	}
	if cc.isAttr && terr == nil {
		vAssertKnown(refAttrSafe(typed), "text emitted into an attribute value is HTML-escaped whatever its type", "C03-html-in-attr", ti == c03HTML)
	}
	if cc.isAttr && perr == nil {
		vAssert(refAttrSafe(plain), "a plain string emitted into an attribute value is HTML-escaped")
	}
}

func vProbe_C03_chain(a []string) string {
	ci := int(a[0][0]) % len(c03Contexts)
	ti := int(a[1][0]) % 8
	chain, err := sanitizerForContext(c03Context(c03Contexts[ci], false))
	if err != nil {
		return "ctxerr"
	}
	var arg interface{} = a[2]
	if ti < 7 {
		arg = c03Value(ti, int(a[1][0]/8)%3, a[2])
	}
	out, derr := vApplyChain(chain, arg)
	if derr != nil {
		return "err"
	}
	return "ok:" + out
}

var _ = safehtml.InnocuousURL
