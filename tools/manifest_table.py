# claim(id, level text, design ref)   /   notapp(id, reason)
B = " Universal inside the stated bound, silent outside it; counterexamples are replayed against the native build before being reported."
claim("C10", "Bounded model checking of HTMLEscaped / HTMLConcat from their SSA (coerceToUTF8InterchangeValid with the range tables built by the real initialiser, unicode.Is from stdlib SSA): for every byte string up to the bound the result equals an independent rune-wise reference, passes an alphabet scan and utf8.ValidString." + B, "DESIGN.md §6 C10")
claim("C11", "Bounded model checking of URLSanitized / isSafeURL from SSA against a WHATWG scheme-state scanner: result is the input or the innocuous URL; an accepted string has no javascript scheme and no '&' before the scheme decision; the real html.UnescapeString (stdlib SSA) of an accepted string has no javascript scheme; both completeness clauses." + B, "DESIGN.md §6 C11")
claim("C12", "Bounded model checking of URLSetSanitized from SSA: the result re-parsed by a WHATWG srcset splitter yields only candidates URLSanitized keeps, number-like descriptors, bytes copied in order from the input, never empty; idempotence." + B, "DESIGN.md §6 C12")
claim("C13", "Bounded model checking of the TrustedResourceURL builders from SSA: prefix recogniser, marker substitution vs a reference encoder with per-byte provenance (confinement of '..' segments), Append, WithParams in both map orders. Two genuine deviations are recorded as known findings." + B, "DESIGN.md §6 C13")
claim("C15", "Bounded model checking of StyleFromProperties from SSA, one field at a time plus two-field and list cases, against a CSS Syntax 3 tokenizer written as a scalar machine: exactly one declaration per chunk, initial state at the end, documented alphabet for verbatim values, reference CSS string escaper. One known finding (',' admitted)." + B, "DESIGN.md §6 C15")
claim("C16", "Bounded model checking of CSSRule / hasBalancedBrackets (container/list from stdlib SSA) against the CSS tokenizer reference: success implies result == selector{style} and a clean prelude. One known finding family (unquoted url tokens)." + B, "DESIGN.md §6 C16")
claim("C17", "Reduced scope: bounded model checking of ScriptFromDataAndConstant for data of Go type string, with the real encoding/json.appendString[string] executed from stdlib SSA: name pattern, frame, inertness of the JSON string literal." + B, "DESIGN.md §6 C17")
claim("C18", "Bounded model checking of IdentifierFromConstant / IdentifierFromConstantPrefix from their SSA: for every byte string up to the bound, "
      "'no panic' implies the result is the argument (resp. prefix-hyphen-value) and matches an independent byte-level recogniser of [A-Za-z][-_A-Za-z0-9]*; "
      "the regular expressions are read from the current source." + B, "DESIGN.md §6 C18")
claim("C20", "Bounded model checking of TrustedSourceFromConstantDir with the real path/filepath.Join and Clean executed from stdlib SSA on a symbolic filename, for 10 constant (dir, src) pairs: success implies no separator, no list separator, not '..', and result == cleaned dir/src or its direct child." + B, "DESIGN.md §6 C20")

HIST = ("a statement about API call histories / aliasing of pointer-linked parse trees driven by text/template's parser and reflection-based executor; "
        "there is no symbolic input whose bytes a solver could range over and the code cannot be encoded by the SSA encoder (DESIGN.md §7)")
notapp("C05", "sticky analysis failure: " + HIST)
notapp("C06", "history independence of execution results: " + HIST)
notapp("C07", "definition freeze and clone isolation: " + HIST)
notapp("C09", "concurrency: schedules of goroutines over sync.Mutex and unsynchronised tree reads; the engine has no concurrency or memory model (DESIGN.md §7)")
notapp("C19", "decided by the Go type checker and by enumerating exported identifiers, not by reasoning over values; nothing to hand to an SMT solver (DESIGN.md §7)")
for p in ["C01","C02","C03","C04","C08","C14"]:
    notapp(p, "planned (DESIGN.md §6) but the check is not built yet in this revision of /verif; not claimed until it runs clean")
