package safehtml

import "encoding/json"

// C17: ScriptFromDataAndConstant embeds data as an inert, round-tripping JSON literal
// (reduced scope: data of Go type string).

func refJSIdent(n string) bool {
	if len(n) == 0 {
		return false
	}
	ok := refAlpha(n[0]) || n[0] == '$' || n[0] == '_'
	for i := 1; i < len(n); i++ {
		ok = ok && (refAlpha(n[i]) || refDigit(n[i]) || n[i] == '$' || n[i] == '_')
	}
	return ok
}

// refJSONStringInert scans a JSON string literal (with its quotes): only well-formed
// escapes, no raw '"', no raw control byte, none of < > &, not U+2028 / U+2029.
func refJSONStringInert(j string) bool {
	if len(j) < 2 || j[0] != '"' || j[len(j)-1] != '"' {
		return false
	}
	ok := true
	st := uint8(0) // 0 plain, 1 after backslash, 2..5 hex digits of \u expected
	for i := 1; i < len(j)-1; i++ {
		b := j[i]
		switch {
		case st == 1:
			if b == 'u' {
				st = 2
			} else {
				if !(b == '"' || b == '\\' || b == '/' || b == 'b' || b == 'f' || b == 'n' || b == 'r' || b == 't') {
					ok = false
				}
				st = 0
			}
		case st >= 2:
			if !refHexDigit(b) {
				ok = false
			}
			st++
			if st == 6 {
				st = 0
			}
		case b == '\\':
			st = 1
		default:
			if b == '"' || b < 0x20 || b == '<' || b == '>' || b == '&' {
				ok = false
			}
			if b == 0xE2 && i+2 < len(j)-1 && j[i+1] == 0x80 && (j[i+2] == 0xA8 || j[i+2] == 0xA9) {
				ok = false
			}
		}
	}
	return ok && st == 0
}

func vHarness_C17_string() {
	nn, n := vParam("nn"), vParam("n")
	name := vNondetString("name", nn)
	data := vNondetString("data", n)
	script := "f(x)"
	s, err := ScriptFromDataAndConstant(stringConstant(name), data, stringConstant(script))
	if err != nil {
		vReach("rejected")
		vAssert(s.String() == "", "a failure returns the zero Script")
		return
	}
	vReach("accepted")
	vAssert(refJSIdent(name), "an accepted name is an ASCII identifier [$_A-Za-z][$_A-Za-z0-9]*")
	out := s.String()
	pre := "var " + name + " = "
	post := ";\n" + script
	vAssert(len(out) >= len(pre)+len(post)+2 && out[:len(pre)] == pre && out[len(out)-len(post):] == post, "the result is var name = J;\\nscript")
	j := out[len(pre) : len(out)-len(post)]
	vAssert(refJSONStringInert(j), "J is one JSON string literal without raw quote, control byte, < > & or U+2028/U+2029")
}

func vProbe_C17_script(a []string) string {
	s, err := ScriptFromDataAndConstant(stringConstant(a[0]), a[1], "f(x)")
	if err != nil {
		return "err"
	}
	return "ok:" + s.String()
}

// refNoHTMLSignificant: j contains none of < > & and neither U+2028 nor U+2029 (raw).
func refNoHTMLSignificant(j string) bool {
	ok := true
	for i := 0; i < len(j); i++ {
		b := j[i]
		if b == '<' || b == '>' || b == '&' {
			ok = false
		}
		if b == 0xE2 && i+2 < len(j) && j[i+1] == 0x80 && (j[i+2] == 0xA8 || j[i+2] == 0xA9) {
			ok = false
		}
	}
	return ok
}

// data that brings its own JSON text (json.RawMessage, as any json.Marshaler may): the bytes
// are validated and compacted by the real encoding/json.appendCompact (stdlib SSA)
func vHarness_C17_raw() {
	raw := vNondetBytes("raw", vParam("n"))
	script := "f(x)"
	s, err := ScriptFromDataAndConstant("xy", json.RawMessage(raw), stringConstant(script))
	if err != nil {
		vReach("rejected")
		vAssert(s.String() == "", "a failure returns the zero Script")
		return
	}
	vReach("accepted")
	out := s.String()
	pre := "var xy = "
	post := ";\n" + script
	vAssert(len(out) >= len(pre)+len(post)+1 && out[:len(pre)] == pre && out[len(out)-len(post):] == post, "the result is var name = J;\\nscript")
	j := out[len(pre) : len(out)-len(post)]
	vAssert(refNoHTMLSignificant(j), "the JSON text of marshaler-provided data contains a raw < > & U+2028 or U+2029")
}

func vProbe_C17_raw(a []string) string {
	s, err := ScriptFromDataAndConstant("xy", json.RawMessage(a[0]), "f(x)")
	if err != nil {
		return "err"
	}
	return "ok:" + s.String()
}
