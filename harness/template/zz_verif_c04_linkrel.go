package template

import (
	"text/template"
	"text/template/parse"
)

// C04, link rel values chosen by conditional branches: the real escaper over
//
//	<link rel="T0 {{if .}}T1{{else}}T2{{end}} T3" href="{{.}}">
//
// with symbolic texts over [a-z -] and space. href may accept a plain (URL-sanitized)
// string only if the rel value that is actually emitted holds one of the reviewed
// URL-compatible tokens - on both branches.

// refRelHasURLTok: rel (raw attribute value text, lower case, tokens separated by spaces)
// contains one of the reviewed tokens as a whole token.
func refRelHasURLTok(rel string) bool {
	hit := false
	for p := 0; p < len(rel); p++ {
		if p > 0 && rel[p-1] != ' ' {
			continue
		}
		for _, v := range refURLLinkRelVals {
			if p+len(v) > len(rel) {
				continue
			}
			m := true
			for k := 0; k < len(v); k++ {
				if rel[p+k] != v[k] {
					m = false
				}
			}
			if p+len(v) < len(rel) && rel[p+len(v)] != ' ' {
				m = false
			}
			if m {
				hit = true
			}
		}
	}
	return hit
}

func c04RelAlphabet(s string) {
	for i := 0; i < len(s); i++ {
		b := s[i]
		vAssume(('a' <= b && b <= 'z') || b == ' ' || b == '-')
	}
}

func vHarness_C04_linkrel() {
	s0 := vNondetString("t0", vParam("n0"))
	s1 := vNondetString("t1", vParam("n1"))
	s2 := vNondetString("t2", vParam("n2"))
	s3 := vNondetString("t3", vParam("n3"))
	c04RelAlphabet(s0)
	c04RelAlphabet(s1)
	c04RelAlphabet(s2)
	c04RelAlphabet(s3)
	t0, t1, t2, t3, t4 := c01TextNode(`<link rel="`+s0), c01TextNode(s1), c01TextNode(s2), c01TextNode(s3+`" href="`), c01TextNode(`">`)
	action := &parse.ActionNode{NodeType: parse.NodeAction, Pipe: c01DotPipe()}
	ifn := &parse.IfNode{BranchNode: parse.BranchNode{NodeType: parse.NodeIf, Pipe: c01DotPipe(),
		List: &parse.ListNode{NodeType: parse.NodeList, Nodes: []parse.Node{t1}}, ElseList: &parse.ListNode{NodeType: parse.NodeList, Nodes: []parse.Node{t2}}}}
	root := &parse.ListNode{NodeType: parse.NodeList, Nodes: []parse.Node{t0, ifn, t3, action, t4}}
	e := &escaper{ns: &nameSpace{}, output: map[string]context{}, derived: map[string]*template.Template{}, called: map[string]bool{},
		actionNodeEdits: map[*parse.ActionNode][]string{}, templateNodeEdits: map[*parse.TemplateNode]string{}, textNodeEdits: map[*parse.TextNode][]byte{}}
	c := e.escapeList(context{}, root)
	if c.state != stateText {
		vReach("rejected")
		return
	}
	vReach("accepted")
	chain := e.actionNodeEdits[action]
	plain, typed := false, false
	for _, f := range chain {
		if f == sanitizeTrustedResourceURLOrURLFuncName {
			plain = true
		}
		if f == sanitizeTrustedResourceURLFuncName {
			typed = true
		}
	}
	vAssert(plain || typed, "an action in link href runs neither the TrustedResourceURL nor the TrustedResourceURL-or-URL sanitizer")
	if plain {
		vReach("url-allowed")
		ok := refRelHasURLTok(s0+s1+s3) && refRelHasURLTok(s0+s2+s3)
		// known finding: the engine reads the rel value from the last static fragment only, so the
		// first token of that fragment counts even when it is glued to preceding conditional text
		glued := refRelHasURLTok(s3)
		vAssertKnown(ok || !glued, "link href accepts a plain string although, on one branch, the emitted rel value holds none of the reviewed URL-compatible tokens", "C04-linkrel-glued-token", true)
		vAssert(ok || glued, "link href accepts a plain string although, on one branch, the emitted rel value holds none of the reviewed URL-compatible tokens")
	}
}
