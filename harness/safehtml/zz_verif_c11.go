package safehtml

import "html"

// C11: URLSanitized returns its input or the innocuous URL, and never a javascript: URL.

func vHarness_C11_sound() {
	n := vParam("n")
	s := vNondetString("s", n)
	if vParam("ascii") == 1 {
		vASCII(s)
	}
	out := URLSanitized(s).String()
	vAssert(out == s || out == InnocuousURL, "result is the input or the innocuous URL")
	if out != s {
		vReach("rejected")
		return
	}
	vReach("accepted")
	phase, amp := refSchemeScan(s)
	vAssert(phase != refPhaseJS, "accepted URL has the javascript scheme under the WHATWG scheme scanner")
	vAssert(!amp, "accepted URL has '&' before the scheme decision point (character-reference decoding could change the scheme)")
}

// direct form of the character-reference clause, with the real html.UnescapeString
func vHarness_C11_unescaped() {
	n := vParam("n")
	s := vNondetString("s", n)
	vASCII(s)
	out := URLSanitized(s).String()
	if out != s {
		return
	}
	vReach("accepted")
	d := html.UnescapeString(s)
	vAssert(!refSchemeIsJavascript(d), "accepted URL has the javascript scheme after character-reference decoding")
}

func refSchemeByte(b byte) bool {
	return refAlpha(b) || refDigit(b) || b == '+' || b == '-' || b == '.'
}

// completeness (a): an ASCII scheme other than javascript is returned unchanged
func vHarness_C11_complete_scheme() {
	n, k := vParam("n"), vParam("k") // k = length of the scheme, 1 <= k < n
	s := vNondetString("s", n)
	if vParam("ascii") == 1 {
		vASCII(s)
	}
	for i := 0; i < k; i++ {
		vAssume(refSchemeByte(s[i]))
	}
	vAssume(s[k] == ':')
	isJS := k == 10
	if isJS {
		for i := 0; i < 10; i++ {
			isJS = isJS && refLowerByte(s[i]) == "javascript"[i]
		}
	}
	vAssume(!isJS)
	vReach("premise")
	vAssert(URLSanitized(s).String() == s, "a URL with an ASCII scheme other than javascript is returned unchanged")
}

// completeness (b): ':' and '&' only after the first '/', '?' or '#'
func vHarness_C11_complete_relative() {
	n := vParam("n")
	s := vNondetString("s", n)
	if vParam("ascii") == 1 {
		vASCII(s)
	}
	seenDelim := false
	ok := true
	for i := 0; i < len(s); i++ {
		b := s[i]
		if b == '/' || b == '?' || b == '#' {
			seenDelim = true
		}
		if (b == ':' || b == '&') && !seenDelim {
			ok = false
		}
	}
	vAssume(ok)
	vReach("premise")
	vAssert(URLSanitized(s).String() == s, "a URL whose ':' and '&' all follow the first '/', '?' or '#' is returned unchanged")
}

func vProbe_C11_sanitize(a []string) string { return URLSanitized(a[0]).String() }

func vProbe_C11_ref(a []string) string {
	p, amp := refSchemeScan(a[0])
	r := string([]byte{'0' + p})
	if amp {
		r += "&"
	}
	return r
}

// long inputs with structure: a symbolic head, a run of k bytes that browsers ignore
// (TAB) and a symbolic tail. This reaches "javascript:" hidden behind or around many
// ignorable bytes without making every byte symbolic.
func vHarness_C11_padded() {
	k, nh, nt := vParam("k"), vParam("nh"), vParam("nt")
	head := vNondetString("head", nh)
	tail := vNondetString("tail", nt)
	vASCII(head)
	vASCII(tail)
	pad := ""
	for i := 0; i < k; i++ {
		pad += "\t"
	}
	if vParam("space") == 1 {
		// leading spaces are stripped only at the start: use them when the head is empty
		pad = ""
		for i := 0; i < k; i++ {
			pad += " "
		}
	}
	s := head + pad + tail
	out := URLSanitized(s).String()
	vAssert(out == s || out == InnocuousURL, "result is the input or the innocuous URL")
	if out != s {
		return
	}
	vReach("accepted")
	phase, amp := refSchemeScan(s)
	vAssert(phase != refPhaseJS, "accepted URL has the javascript scheme under the WHATWG scheme scanner")
	vAssert(!amp, "accepted URL has '&' before the scheme decision point (character-reference decoding could change the scheme)")
}
