package template

import "path/filepath"

// C20: TrustedSourceFromConstantDir keeps dynamic filenames inside the constant dir.

var c20Pairs = [][2]string{
	{"", ""}, {".", ""}, {"/", ""}, {"t", ""}, {"/a/b", "c"}, {"a/../b", ""}, {"a", "../c"}, {"a/", "b/"}, {"..", ""}, {"a//b/.", "./c/"},
}

func refHasByte(s string, c byte) bool {
	r := false
	for i := 0; i < len(s); i++ {
		r = r || s[i] == c
	}
	return r
}

func vHarness_C20_dir() {
	k, n := vParam("pair"), vParam("n")
	dir, src := c20Pairs[k][0], c20Pairs[k][1]
	f := vNondetString("f", n)
	ts, err := TrustedSourceFromConstantDir(stringConstant(dir), TrustedSource{src}, f)
	if err != nil {
		vAssert(ts.String() == "", "an error comes with the zero TrustedSource")
		return
	}
	vReach("accepted")
	out := ts.String()
	vAssert(!refHasByte(f, '/'), "accepted filename contains no path separator")
	vAssert(!refHasByte(f, ':'), "accepted filename contains no list separator")
	vAssert(f != "..", "accepted filename is not ..")
	base := filepath.Clean(filepath.Join(dir, src)) // concrete
	if dir == "" && src == "" {
		base = "."
	}
	var want string
	switch {
	case f == "" || f == ".":
		want = base
		if dir == "" && src == "" && f == "" {
			want = "" // Join of only empty elements
		}
	case base == ".":
		want = f
	case base == "/":
		want = "/" + f
	default:
		want = base + "/" + f
	}
	vAssert(out == want, "result is the cleaned dir/src itself or its direct child named filename")
}

func vProbe_C20_dir(a []string) string {
	ts, err := TrustedSourceFromConstantDir(stringConstant(a[0]), TrustedSource{a[1]}, a[2])
	if err != nil {
		return "err"
	}
	return "ok:" + ts.String()
}
