package exec

import (
	"fmt"
	"os"
	"runtime/debug"
	"time"

	"golang.org/x/tools/go/ssa"

	"symgo/smt"
)

type JobSpec struct {
	Pkg     string         `json:"pkg"`
	Harness string         `json:"harness"`
	Params  map[string]int `json:"params"`
}

type FindingOut struct {
	Kind    string            `json:"kind"`
	Msg     string            `json:"msg"`
	Pos     string            `json:"pos"`
	Known   string            `json:"known,omitempty"`
	Unknown bool              `json:"unknown,omitempty"`
	Inputs  map[string][]byte `json:"inputs"`
}

type JobResult struct {
	Spec        JobSpec
	Findings    []FindingOut
	Reached     map[string]map[string][]byte
	Err         string // unsupported construct etc. -> inconclusive
	Paths       int
	States      int
	Instrs      int
	Forks       int
	Merges      int
	MergeFails  int
	Cut         int
	Undecided   int
	Obligations int
	Discharged  int
	Queries     int
	SolverTime  time.Duration
	Wall        time.Duration
	Nodes       int
	Assumes     []string
	SolverErrs  []string
	Slow        []string
}

type JobOpts struct {
	Solver    string
	TimeoutMS int
	MaxVisits int
	MaxSteps  int
	WallSecs  int // 0: no wall-clock limit
	Trace     bool
	Eager     bool
}

func (w *World) harnessFn(pkg, name string) (*ssa.Function, error) {
	p := w.Pkgs[pkg]
	if p == nil {
		return nil, fmt.Errorf("package %s not loaded", pkg)
	}
	fn := p.Func(name)
	if fn == nil {
		return nil, fmt.Errorf("function %s not found in %s", name, pkg)
	}
	return fn, nil
}

func (x *Exec) inputsFromModel(model []uint64) map[string][]byte {
	out := map[string][]byte{}
	for _, in := range x.Inputs {
		b := make([]byte, len(in.Terms))
		for i, t := range in.Terms {
			if model != nil {
				b[i] = byte(smt.Eval(t, model, nil))
			}
		}
		out[in.Name] = b
	}
	return out
}

// RunJob explores one harness symbolically.
func (w *World) RunJob(spec JobSpec, o JobOpts) (res *JobResult) {
	t0 := time.Now()
	res = &JobResult{Spec: spec, Reached: map[string]map[string][]byte{}}
	fn, err := w.harnessFn(spec.Pkg, spec.Harness)
	if err != nil {
		res.Err = err.Error()
		return
	}
	ctx := smt.NewCtx()
	solver, err := smt.NewSolver(o.Solver, ctx, o.TimeoutMS)
	if err != nil {
		res.Err = err.Error()
		return
	}
	defer solver.Close()
	if lf := os.Getenv("SYMGO_SMTLOG"); lf != "" {
		if f, err := os.Create(lf); err == nil {
			solver.Log = f
			fmt.Fprintf(f, "(set-option :produce-models true)\n(set-option :global-declarations true)\n(set-logic QF_BV)\n")
			defer f.Close()
		}
	}
	x := &Exec{W: w, Ctx: ctx, Solver: solver, Params: spec.Params, MaxVisits: o.MaxVisits, MaxSteps: o.MaxSteps,
		feasCache: map[feasKey]feasRes{}, Trace: o.Trace, Lazy: !o.Eager}
	if os.Getenv("SYMGO_SITES") != "" {
		x.QuerySites = map[string]int{}
		defer func() {
			for k, v := range x.QuerySites {
				fmt.Println("SITE", v, k)
			}
		}()
	}
	if x.MaxVisits == 0 {
		x.MaxVisits = 400
	}
	if o.WallSecs > 0 {
		x.Deadline = time.Now().Add(time.Duration(o.WallSecs) * time.Second)
	}
	if x.MaxSteps == 0 {
		x.MaxSteps = 5_000_000
	}
	defer func() {
		if r := recover(); r != nil {
			if u, ok := r.(Unsupported); ok {
				res.Err = u.Msg
			} else {
				res.Err = fmt.Sprintf("engine panic: %v\n%s", r, debug.Stack())
			}
		}
		res.Paths, res.States, res.Instrs, res.Forks, res.Merges, res.MergeFails = x.Paths, x.StatesN, x.Instrs, x.Forks, x.Merges, x.MergeFails
		res.Cut, res.Undecided, res.Obligations, res.Discharged = x.Cut, x.Undecided, x.Obligations, x.Discharged
		res.Queries, res.SolverTime = solver.Queries, solver.Time
		res.Nodes = ctx.NumNodes()
		res.Assumes = x.Assumes
		res.SolverErrs = solver.Errors
		res.Slow = append(solver.Slow, fmt.Sprintf("define=%v wait=%v model=%v sat=%d unsat=%d lazyforks=%d lazydropped=%d box=%d pool=%d", solver.TDefine, solver.TWait, solver.TModel, solver.SatN, solver.UnsatN, x.LazyForks, x.LazyDropped, x.BoxDecided, x.PoolHits))
		for _, f := range x.Findings {
			res.Findings = append(res.Findings, FindingOut{Kind: f.Kind, Msg: f.Msg, Pos: f.Pos, Known: f.Known, Unknown: f.Unknown, Inputs: x.inputsFromModel(f.Model)})
		}
		for tag, m := range x.Reached {
			res.Reached[tag] = x.inputsFromModel(m)
		}
		res.Wall = time.Since(t0)
	}()
	s := &State{W: w, Model: []uint64{}}
	x.pushFrame(s, fn, nil, nil, nil)
	x.StatesN = 1
	x.Run(s)
	return
}

// RunConcrete executes a harness with concrete inputs (replay inside the engine).
func (w *World) RunConcrete(spec JobSpec, inputs map[string][]byte) (res *JobResult) {
	res = &JobResult{Spec: spec, Reached: map[string]map[string][]byte{}}
	fn, err := w.harnessFn(spec.Pkg, spec.Harness)
	if err != nil {
		res.Err = err.Error()
		return
	}
	x := &Exec{W: w, Ctx: smt.NewCtx(), Concrete: true, Params: spec.Params, ConcreteInputs: inputs, MaxVisits: 1 << 30, MaxSteps: 1 << 40, feasCache: map[feasKey]feasRes{}}
	defer func() {
		if r := recover(); r != nil {
			if u, ok := r.(Unsupported); ok {
				res.Err = u.Msg
			} else {
				res.Err = fmt.Sprintf("engine panic: %v\n%s", r, debug.Stack())
			}
		}
		for _, f := range x.Findings {
			res.Findings = append(res.Findings, FindingOut{Kind: f.Kind, Msg: f.Msg, Pos: f.Pos, Known: f.Known})
		}
		for tag := range x.Reached {
			res.Reached[tag] = nil
		}
		res.Instrs = x.Instrs
	}()
	s := &State{W: w, Model: []uint64{}}
	x.pushFrame(s, fn, nil, nil, nil)
	x.Run(s)
	return
}

// RunProbe evaluates probe(args) concretely; the result is "OK:<bytes>" or "PANIC".
func (w *World) RunProbe(pkg, probe string, args []string) (out string, err error) {
	fn, e := w.harnessFn(pkg, probe)
	if e != nil {
		return "", e
	}
	x := &Exec{W: w, Ctx: smt.NewCtx(), Concrete: true, MaxVisits: 1 << 30, MaxSteps: 1 << 40, feasCache: map[feasKey]feasRes{}}
	defer func() {
		if r := recover(); r != nil {
			if u, ok := r.(Unsupported); ok {
				err = fmt.Errorf("%s", u.Msg)
			} else {
				err = fmt.Errorf("engine panic: %v\n%s", r, debug.Stack())
			}
		}
	}()
	s := &State{W: w, Model: []uint64{}}
	el := make([]Value, len(args))
	for i, a := range args {
		el[i] = StrOf(a)
	}
	argSlice := s.newSlice(el)
	// a tiny root frame is not needed: run the probe frame to completion and read its result
	x.pushFrame(s, fn, []Value{argSlice}, nil, nil)
	var result Value
	x.onRootReturn = func(v Value) { result = v }
	x.Run(s)
	if len(x.Findings) > 0 {
		return "PANIC", nil
	}
	if result == nil && x.Cut > 0 {
		return "CUT", nil // the case lies outside the encoded fragment (recorded cut): nothing to compare
	}
	if _, isO := result.(Opaque); isO {
		return "CUT", nil // an explicitly unmodelled value (e.g. a format with flags): nothing to compare
	}
	str, ok := result.(Str)
	if !ok {
		return "", fmt.Errorf("probe returned %T", result)
	}
	cs, ok := str.Concrete()
	if !ok {
		return "", fmt.Errorf("probe returned symbolic string")
	}
	return "OK:" + cs, nil
}
