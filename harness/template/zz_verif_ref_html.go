package template

// Reference: WHATWG HTML tokenizer (section 13.2.5, DESIGN.md Appendix A.3) as a scalar
// state machine over bytes, with the tree-builder feedback that switches the tokenizer
// for title/textarea (RCDATA), style/xmp/iframe/noembed/noframes/noscript (RAWTEXT),
// script (script data) and plaintext. It emits no token objects: it counts tags,
// attributes and comments and keeps a rolling fingerprint of tag and attribute names.
// Character-reference states are omitted (they return to their return state and consume
// only alphanumerics, '#' and ';').

const (
	kData uint8 = iota
	kRCDATA
	kRAWTEXT
	kScript
	kPLAINTEXT
	kTagOpen
	kEndTagOpen
	kTagName
	kTextLT         // '<' seen in RCDATA / RAWTEXT / script data
	kTextEndTagOpen // "</" seen there
	kTextEndTagName // matching the appropriate end tag name
	kBeforeAttrName
	kAttrName
	kAfterAttrName
	kBeforeAttrValue
	kAttrValueDQ
	kAttrValueSQ
	kAttrValueUQ
	kAfterAttrValueQ
	kSelfClosing
	kBogusComment
	kMarkupDecl // after "<!": matching "--", "DOCTYPE" or "[CDATA["
	kCommentStart
	kCommentStartDash
	kComment
	kCommentLT
	kCommentLTBang
	kCommentLTBangDash
	kCommentLTBangDashDash
	kCommentEndDash
	kCommentEnd
	kCommentEndBang
	kDoctype
	// script data escape family
	kScriptEscStart     // "<!" seen in script data
	kScriptEscStartDash // "<!-"
	kScriptEsc          // script data escaped
	kScriptEscDash
	kScriptEscDashDash
	kScriptEscLT
	kScriptEscEndTagOpen
	kScriptEscEndTagName
	kScriptDblEscStart // matching "script" after "<" in escaped state
	kScriptDblEsc
	kScriptDblEscDash
	kScriptDblEscDashDash
	kScriptDblEscLT
	kScriptDblEscEnd // matching "script" after "</" in double escaped state
)

const (
	rawNone uint8 = iota
	rawTitle
	rawTextarea
	rawStyle
	rawXmp
	rawIframe
	rawNoembed
	rawNoframes
	rawNoscript
	rawScript
	rawPlaintext
)

var rawNames = [...]string{"", "title", "textarea", "style", "xmp", "iframe", "noembed", "noframes", "noscript", "script", "plaintext"}

type tok struct {
	st       uint8
	raw      uint8 // element whose raw text we are in (appropriate end tag)
	ret      uint8 // text state to fall back to from the end-tag matching states
	prog     uint8 // progress counter of the matcher in use
	miss     bool  // the matcher saw a mismatch
	isEnd    bool  // the tag being tokenized is an end tag
	nameLo   uint32
	nameHi   uint32
	nameLen  uint8
	mdKind   uint8 // markup declaration candidate: 1 "--", 2 "doctype", 3 "[CDATA["
	starts   uint8
	ends     uint8
	attrs    uint8
	comments uint8
	fp       uint32
	oddSlash bool // '/' inside a tag that is not directly followed by '>'
	oddCmt   bool // a comment ended other than by "-->" (abrupt "<!-->", "--!>") or was a bogus comment
	odd      bool // a tag name contained a byte at which the escaper's eatTagName stops (not alphanumeric)
}

func tokWS(b byte) bool { return b == '\t' || b == '\n' || b == '\f' || b == ' ' || b == '\r' }

func tokCode(b byte) uint32 {
	lb := refLowerByte(b)
	if 'a' <= lb && lb <= 'z' {
		return uint32(lb-'a') + 1
	}
	if '0' <= b && b <= '9' {
		return 27
	}
	return 28
}

func (t *tok) nameReset() { t.nameLo, t.nameHi, t.nameLen = 0, 0, 0 }

func (t *tok) namePush(b byte) {
	if !refAlpha(b) && !refDigit(b) {
		t.odd = true
	}
	c := tokCode(b)
	if t.nameLen < 6 {
		t.nameLo = t.nameLo<<5 | c
	} else if t.nameLen < 12 {
		t.nameHi = t.nameHi<<5 | c
	}
	if t.nameLen < 200 {
		t.nameLen++
	}
	t.fp = t.fp*31 + uint32(refLowerByte(b))
}

func tokPack(s string) (lo, hi uint32) {
	for i := 0; i < len(s); i++ {
		c := uint32(s[i]-'a') + 1
		if i < 6 {
			lo = lo<<5 | c
		} else {
			hi = hi<<5 | c
		}
	}
	return
}

// rawKindOfName: which raw-text family the start tag just tokenized belongs to.
func (t *tok) rawKindOfName() uint8 {
	k := rawNone
	for i := 1; i < len(rawNames); i++ {
		lo, hi := tokPack(rawNames[i])
		if int(t.nameLen) == len(rawNames[i]) && t.nameLo == lo && t.nameHi == hi {
			k = uint8(i)
		}
	}
	return k
}

func rawNameByte(kind, pos uint8) byte {
	r := byte(0)
	for i := 1; i < len(rawNames); i++ {
		for j := 0; j < len(rawNames[i]); j++ {
			if kind == uint8(i) && pos == uint8(j) {
				r = rawNames[i][j]
			}
		}
	}
	return r
}

func rawNameLen(kind uint8) uint8 {
	r := uint8(0)
	for i := 1; i < len(rawNames); i++ {
		if kind == uint8(i) {
			r = uint8(len(rawNames[i]))
		}
	}
	return r
}

func rawTextState(kind uint8) uint8 {
	switch kind {
	case rawTitle, rawTextarea:
		return kRCDATA
	case rawScript:
		return kScript
	case rawPlaintext:
		return kPLAINTEXT
	case rawNone:
		return kData
	}
	return kRAWTEXT
}

// emitTag: the '>' (or the end of a self-closing tag) of the current tag was reached.
func (t *tok) emitTag() {
	t.fp = t.fp*31 + 0x3e
	if t.isEnd {
		t.ends++
		t.raw = rawNone
		t.st = kData
		return
	}
	t.starts++
	k := t.rawKindOfName()
	t.raw = k
	t.st = rawTextState(k)
}

const mdDoctype = "doctype"
const mdCDATA = "[CDATA["
const scriptName = "script"

// step consumes one byte.
func (t *tok) step(b byte) {
	lb := refLowerByte(b)
	alpha := refAlpha(b)
	switch t.st {
	case kData:
		if b == '<' {
			t.st = kTagOpen
		}
	case kPLAINTEXT:
	case kRCDATA, kRAWTEXT:
		if b == '<' {
			t.ret = t.st
			t.st = kTextLT
		}
	case kScript:
		if b == '<' {
			t.ret = kScript
			t.st = kTextLT
		}
	case kTextLT:
		if b == '/' {
			t.st = kTextEndTagOpen
		} else if b == '!' && t.ret == kScript {
			t.st = kScriptEscStart
		} else {
			t.st = t.ret
			if b == '<' {
				t.st = kTextLT
			}
		}
	case kTextEndTagOpen:
		if alpha {
			t.prog, t.miss = 0, false
			t.st = kTextEndTagName
			t.textEndTagName(b, lb)
		} else {
			t.st = t.ret
			if b == '<' {
				t.st = kTextLT
			}
		}
	case kTextEndTagName:
		t.textEndTagName(b, lb)
	case kTagOpen:
		switch {
		case b == '!':
			t.st = kMarkupDecl
			t.prog, t.mdKind = 0, 0
		case b == '/':
			t.st = kEndTagOpen
		case alpha:
			t.isEnd = false
			t.nameReset()
			t.fp = t.fp*31 + 0x3c
			t.namePush(b)
			t.st = kTagName
		case b == '?':
			t.oddCmt = true
			t.st = kBogusComment
		case b == '<':
			t.st = kTagOpen
		default:
			t.st = kData
		}
	case kEndTagOpen:
		switch {
		case alpha:
			t.isEnd = true
			t.nameReset()
			t.fp = t.fp*31 + 0x2f
			t.namePush(b)
			t.st = kTagName
		case b == '>':
			t.st = kData
		default:
			t.oddCmt = true
			t.st = kBogusComment
		}
	case kTagName:
		switch {
		case tokWS(b):
			t.st = kBeforeAttrName
		case b == '/':
			t.st = kSelfClosing
		case b == '>':
			t.emitTag()
		default:
			t.namePush(b)
		}
	case kBeforeAttrName, kAfterAttrName:
		switch {
		case tokWS(b):
		case b == '/':
			t.st = kSelfClosing
		case b == '>':
			t.emitTag()
		case b == '=' && t.st == kAfterAttrName:
			t.st = kBeforeAttrValue
		default:
			// start a new attribute ('=' as first byte of a name is a parse error but a name byte)
			t.attrs++
			t.fp = t.fp*31 + 0x20
			t.fp = t.fp*31 + uint32(lb)
			t.st = kAttrName
		}
	case kAttrName:
		switch {
		case tokWS(b):
			t.st = kAfterAttrName
		case b == '/':
			t.st = kSelfClosing
		case b == '>':
			t.emitTag()
		case b == '=':
			t.st = kBeforeAttrValue
		default:
			t.fp = t.fp*31 + uint32(lb)
		}
	case kBeforeAttrValue:
		switch {
		case tokWS(b):
		case b == '"':
			t.st = kAttrValueDQ
		case b == '\'':
			t.st = kAttrValueSQ
		case b == '>':
			t.emitTag()
		default:
			t.st = kAttrValueUQ
		}
	case kAttrValueDQ:
		if b == '"' {
			t.st = kAfterAttrValueQ
		}
	case kAttrValueSQ:
		if b == '\'' {
			t.st = kAfterAttrValueQ
		}
	case kAttrValueUQ:
		if tokWS(b) {
			t.st = kBeforeAttrName
		} else if b == '>' {
			t.emitTag()
		}
	case kAfterAttrValueQ:
		switch {
		case tokWS(b):
			t.st = kBeforeAttrName
		case b == '/':
			t.st = kSelfClosing
		case b == '>':
			t.emitTag()
		default:
			// missing whitespace between attributes: reconsume in before attribute name
			t.attrs++
			t.fp = t.fp*31 + 0x20
			t.fp = t.fp*31 + uint32(lb)
			t.st = kAttrName
		}
	case kSelfClosing:
		if b != '>' {
			t.oddSlash = true
		}
		switch {
		case b == '>':
			t.emitTag()
		case tokWS(b):
			t.st = kBeforeAttrName
		case b == '/':
		default:
			t.attrs++
			t.fp = t.fp*31 + 0x20
			t.fp = t.fp*31 + uint32(lb)
			t.st = kAttrName
		}
	case kBogusComment:
		t.oddCmt = true
		if b == '>' {
			t.comments++
			t.st = kData
		}
	case kMarkupDecl:
		t.markupDecl(b, lb)
	case kCommentStart:
		switch b {
		case '-':
			t.st = kCommentStartDash
		case '>':
			t.oddCmt = true
			t.comments++
			t.st = kData
		case '<':
			t.st = kCommentLT
		default:
			t.st = kComment
		}
	case kCommentStartDash:
		switch b {
		case '-':
			t.st = kCommentEnd
		case '>':
			t.oddCmt = true
			t.comments++
			t.st = kData
		case '<':
			t.st = kCommentLT
		default:
			t.st = kComment
		}
	case kComment:
		if b == '<' {
			t.st = kCommentLT
		} else if b == '-' {
			t.st = kCommentEndDash
		}
	case kCommentLT:
		switch b {
		case '!':
			t.st = kCommentLTBang
		case '<':
		case '-':
			t.st = kCommentEndDash
		default:
			t.st = kComment
		}
	case kCommentLTBang:
		if b == '-' {
			t.st = kCommentLTBangDash
		} else if b == '<' {
			t.st = kCommentLT
		} else {
			t.st = kComment
		}
	case kCommentLTBangDash:
		if b == '-' {
			t.st = kCommentLTBangDashDash
		} else if b == '<' {
			t.st = kCommentLT // reconsumed in comment end dash: '<' is not '-', so comment, then '<'
		} else {
			t.st = kComment
		}
	case kCommentLTBangDashDash:
		// reconsume in comment end
		t.st = kCommentEnd
		t.step(b)
	case kCommentEndDash:
		if b == '-' {
			t.st = kCommentEnd
		} else if b == '<' {
			t.st = kCommentLT
		} else {
			t.st = kComment
		}
	case kCommentEnd:
		switch b {
		case '>':
			t.comments++
			t.st = kData
		case '!':
			t.st = kCommentEndBang
		case '-':
		case '<':
			t.st = kCommentLT
		default:
			t.st = kComment
		}
	case kCommentEndBang:
		switch b {
		case '-':
			t.st = kCommentEndDash
		case '>':
			t.oddCmt = true
			t.comments++
			t.st = kData
		case '<':
			t.st = kCommentLT
		default:
			t.st = kComment
		}
	case kDoctype:
		if b == '>' {
			t.st = kData
		}
	// ---- script data escape family ----
	case kScriptEscStart:
		if b == '-' {
			t.st = kScriptEscStartDash
		} else {
			t.scriptReconsume(b)
		}
	case kScriptEscStartDash:
		if b == '-' {
			t.st = kScriptEscDashDash
		} else {
			t.scriptReconsume(b)
		}
	case kScriptEsc:
		if b == '-' {
			t.st = kScriptEscDash
		} else if b == '<' {
			t.st = kScriptEscLT
		}
	case kScriptEscDash:
		if b == '-' {
			t.st = kScriptEscDashDash
		} else if b == '<' {
			t.st = kScriptEscLT
		} else {
			t.st = kScriptEsc
		}
	case kScriptEscDashDash:
		switch b {
		case '-':
		case '<':
			t.st = kScriptEscLT
		case '>':
			t.st = kScript
		default:
			t.st = kScriptEsc
		}
	case kScriptEscLT:
		switch {
		case b == '/':
			t.st = kScriptEscEndTagOpen
		case alpha:
			t.prog, t.miss = 0, false
			t.st = kScriptDblEscStart
			t.dblEscMatch(b, lb, kScriptDblEsc, kScriptEsc)
		default:
			t.st = kScriptEsc
			t.step(b)
		}
	case kScriptEscEndTagOpen:
		if alpha {
			t.prog, t.miss = 0, false
			t.ret = kScriptEsc
			t.st = kTextEndTagName
			t.textEndTagName(b, lb)
		} else {
			t.st = kScriptEsc
			t.step(b)
		}
	case kScriptDblEscStart:
		t.dblEscMatch(b, lb, kScriptDblEsc, kScriptEsc)
	case kScriptDblEsc:
		if b == '-' {
			t.st = kScriptDblEscDash
		} else if b == '<' {
			t.st = kScriptDblEscLT
		}
	case kScriptDblEscDash:
		if b == '-' {
			t.st = kScriptDblEscDashDash
		} else if b == '<' {
			t.st = kScriptDblEscLT
		} else {
			t.st = kScriptDblEsc
		}
	case kScriptDblEscDashDash:
		switch b {
		case '-':
		case '<':
			t.st = kScriptDblEscLT
		case '>':
			t.st = kScript
		default:
			t.st = kScriptDblEsc
		}
	case kScriptDblEscLT:
		if b == '/' {
			t.prog, t.miss = 0, false
			t.st = kScriptDblEscEnd
		} else {
			t.st = kScriptDblEsc
			t.step(b)
		}
	case kScriptDblEscEnd:
		t.dblEscMatch(b, lb, kScriptEsc, kScriptDblEsc)
	}
}

func (t *tok) scriptReconsume(b byte) {
	t.st = kScript
	if b == '<' {
		t.ret = kScript
		t.st = kTextLT
	}
}

// textEndTagName: inside "</name" in a raw text state; the name must be the appropriate
// end tag name, followed by white space, '/' or '>'.
func (t *tok) textEndTagName(b, lb byte) {
	n := rawNameLen(t.raw)
	if refAlpha(b) {
		if t.prog < n && lb == rawNameByte(t.raw, t.prog) {
			t.prog++
		} else {
			t.miss = true
			if t.prog < 200 {
				t.prog++
			}
		}
		return
	}
	appropriate := !t.miss && t.prog == n && n > 0
	switch {
	case appropriate && tokWS(b):
		t.isEnd = true
		t.endTagFingerprint()
		t.st = kBeforeAttrName
	case appropriate && b == '/':
		t.isEnd = true
		t.endTagFingerprint()
		t.st = kSelfClosing
	case appropriate && b == '>':
		t.isEnd = true
		t.endTagFingerprint()
		t.emitTag()
	default:
		t.st = t.ret
		if t.ret == kScriptEsc {
			t.step(b)
		} else if b == '<' {
			t.st = kTextLT
		}
	}
}

func (t *tok) endTagFingerprint() {
	t.fp = t.fp*31 + 0x2f
	n := rawNameLen(t.raw)
	for i := uint8(0); i < 12; i++ {
		if i < n {
			t.fp = t.fp*31 + uint32(rawNameByte(t.raw, i))
		}
	}
}

// dblEscMatch: matching "script" in the double escape start / end states.
func (t *tok) dblEscMatch(b, lb byte, onMatch, otherwise uint8) {
	if refAlpha(b) {
		if t.prog < 6 && lb == scriptName[t.prog] {
			t.prog++
		} else {
			t.miss = true
			if t.prog < 200 {
				t.prog++
			}
		}
		return
	}
	if tokWS(b) || b == '/' || b == '>' {
		if !t.miss && t.prog == 6 {
			t.st = onMatch
		} else {
			t.st = otherwise
		}
		return
	}
	t.st = otherwise
	t.step(b)
}

// markupDecl: after "<!". "--" starts a comment, "doctype" (any case) a DOCTYPE,
// "[CDATA[" in HTML content a bogus comment; anything else a bogus comment.
func (t *tok) markupDecl(b, lb byte) {
	if t.prog == 0 {
		switch {
		case b == '-':
			t.mdKind = 1
		case lb == 'd':
			t.mdKind = 2
		case b == '[':
			t.mdKind = 3
		default:
			t.oddCmt = true
			t.st = kBogusComment
			if b == '>' {
				t.comments++
				t.st = kData
			}
			return
		}
		t.prog = 1
		return
	}
	ok := false
	done := false
	switch t.mdKind {
	case 1:
		ok = b == '-'
		done = true
	case 2:
		ok = t.prog < 7 && lb == mdDoctype[t.prog]
		done = t.prog == 6
	case 3:
		ok = t.prog < 7 && b == mdCDATA[t.prog]
		done = t.prog == 6
	}
	if !ok {
		// not a keyword after all: bogus comment, the bytes seen so far are its data
		t.oddCmt = true
		t.st = kBogusComment
		if b == '>' {
			t.comments++
			t.st = kData
		}
		return
	}
	t.prog++
	if done {
		switch t.mdKind {
		case 1:
			t.st = kCommentStart
		case 2:
			t.st = kDoctype
		default:
			t.oddCmt = true
			t.st = kBogusComment
		}
	}
}

func (t *tok) run(s string) {
	for i := 0; i < len(s); i++ {
		t.step(s[i])
	}
}
